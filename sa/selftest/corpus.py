"""Seeded variants for checker self-validation. kind 'M' = behaviour-breaking edit that must be reported under
the clause prefix `expect`; kind 'E' = behaviour-preserving edit that must stay silent."""
VARIANTS = []


def M(pid, name, expect, *edits):
    VARIANTS.append({'pid': pid, 'kind': 'M', 'name': name, 'expect': expect, 'edits': list(edits)})


def E(pid, name, *edits, **kw):
    VARIANTS.append({'pid': pid, 'kind': 'E', 'name': name, 'expect': None, 'edits': list(edits), **kw})


CALC = 'csep/utils/calc.py'
REG = 'csep/core/regions.py'
CAT = 'csep/core/catalogs.py'
FOR = 'csep/core/forecasts.py'
POI = 'csep/core/poisson_evaluations.py'
BIN = 'csep/core/binomial_evaluations.py'
BRI = 'csep/core/brier_evaluations.py'
CEV = 'csep/core/catalog_evaluations.py'
STA = 'csep/utils/stats.py'
TIM = 'csep/utils/time_utils.py'
RDR = 'csep/utils/readers.py'
MOD = 'csep/models.py'
INI = 'csep/__init__.py'
REP = 'csep/core/repositories.py'

# ------------------------------------------------------------------------------------------------ C02
M('C02', 'floor->rint', 'C02-D1', (CALC, 'idx = numpy.floor((p', 'idx = numpy.rint((p'))
M('C02', 'floor->trunc', 'C02-D1', (CALC, 'idx = numpy.floor((p', 'idx = numpy.trunc((p'))
M('C02', 'round inside floor', 'C02-D1', (CALC, 'numpy.floor((p - a0 + p_tol + a0_tol) / (h - h_tol))', 'numpy.floor(numpy.round((p - a0 + p_tol + a0_tol) / (h - h_tol), 9))'))
M('C02', 'h - h_tol -> h + h_tol', 'C02-D2', (CALC, '/ (h - h_tol))', '/ (h + h_tol))'))
M('C02', 'h_tol dropped', 'C02-D2', (CALC, '/ (h - h_tol))', '/ h)'))
M('C02', '+p_tol -> -p_tol', 'C02-D2', (CALC, 'p - a0 + p_tol + a0_tol', 'p - a0 - p_tol + a0_tol'))
M('C02', 'a0_tol dropped', 'C02-D2', (CALC, 'p - a0 + p_tol + a0_tol', 'p - a0 + p_tol'))
M('C02', 'abs dropped in tolerance', 'C02-D2', (CALC, 'tol = numpy.abs(v) * numpy.finfo(v.dtype).eps', 'tol = v * numpy.finfo(v.dtype).eps'))
M('C02', 'eps dropped in tolerance', 'C02-D2', (CALC, 'tol = numpy.abs(v) * numpy.finfo(v.dtype).eps', 'tol = numpy.abs(v) * 1e-3'))
M('C02', 'clamp to len(bins)', 'C02-D3', (CALC, 'idx[idx >= len(bins) - 1] = len(bins) - 1', 'idx[idx >= len(bins) - 1] = len(bins)'))
M('C02', 'clamp from len(bins)-2', 'C02-D3', (CALC, 'idx[idx >= len(bins) - 1] = len(bins) - 1', 'idx[idx >= len(bins) - 2] = len(bins) - 1'))
M('C02', 'below-range -> 0 in open mode', 'C02-D3', (CALC, '        idx[idx < 0] = -1\n', '        idx[idx < 0] = 0\n'))
M('C02', 'closed upper bound off by one', 'C02-D3', (CALC, 'idx[(idx < 0) | (idx >= len(bins))] = -1', 'idx[(idx < 0) | (idx > len(bins))] = -1'))
M('C02', 'closed lower bound <=0', 'C02-D3', (CALC, 'idx[(idx < 0) | (idx >= len(bins))] = -1', 'idx[(idx <= 0) | (idx >= len(bins))] = -1'))
M('C02', 'closed upper test dropped', 'C02-D3', (CALC, 'idx[(idx < 0) | (idx >= len(bins))] = -1', 'idx[idx < 0] = -1'))
M('C02', 'single-edge not forced open', 'C02-D3', (CALC, "        right_continuous = True\n        h = 1.", "        h = 1."))
M('C02', 'negative spacing accepted', 'C02-D3', (CALC, '    if h < 0:\n        raise ValueError("grid spacing must be positive and monotonically increasing.")\n', ''))
M('C02', 'magnitude_counts drops right_continuous', 'C02-D4', (CAT, '        idx = bin1d_vec(self.get_magnitudes(), mag_bins, tol=tol, right_continuous=True)\n        # events below', '        idx = bin1d_vec(self.get_magnitudes(), mag_bins, tol=tol)\n        # events below'))
M('C02', 'get_magnitude_index drops right_continuous', 'C02-D4', (FOR, 'idm = bin1d_vec(mags, self.magnitudes, tol=tol, right_continuous=True)', 'idm = bin1d_vec(mags, self.magnitudes, tol=tol)'))
M('C02', 'coordinate call right_continuous', 'C02-D4', (REG, '    idx = bin1d_vec(lons, ai)\n    idy = bin1d_vec(lats, bi)\n    # bin1d returns -1', '    idx = bin1d_vec(lons, ai, right_continuous=True)\n    idy = bin1d_vec(lats, bi)\n    # bin1d returns -1'))
M('C02', 'cleaner_range round->floor', 'C02-D5', (CALC, 'start = numpy.round(scale * start)', 'start = numpy.floor(scale * start)'))
M('C02', 'cleaner_range end not rounded', 'C02-D5', (CALC, 'end = numpy.round(scale * end)', 'end = scale * end'))
M('C02', 'cleaner_range stop without half step', 'C02-D5', (CALC, 'numpy.arange(start, end + d / 2, d) / scale', 'numpy.arange(start, end, d) / scale'))
M('C02', 'cleaner_range stop 2 steps', 'C02-D5', (CALC, 'numpy.arange(start, end + d / 2, d) / scale', 'numpy.arange(start, end + 2 * d, d) / scale'))
M('C02', 'cleaner_range float arange', 'C02-D5', (CALC, 'return numpy.arange(start, end + d / 2, d) / scale', 'return numpy.arange(start / scale, (end + d / 2) / scale, h)'))
M('C02', 'magnitude_bins swaps args', 'C02-D5', (REG, 'return cleaner_range(start_magnitude, end_magnitude, dmw)', 'return cleaner_range(end_magnitude, start_magnitude, dmw)'))
E('C02', 'clamp comparator as integer set', (CALC, 'idx[idx >= len(bins) - 1] = len(bins) - 1', 'idx[idx > len(bins) - 2] = len(bins) - 1'))
E('C02', 'clamp from len(bins)', (CALC, 'idx[idx >= len(bins) - 1] = len(bins) - 1', 'idx[idx >= len(bins)] = len(bins) - 1'))
E('C02', 'stop one full step', (CALC, 'numpy.arange(start, end + d / 2, d) / scale', 'numpy.arange(start, end + d, d) / scale'))
E('C02', 'tol ifexp', (CALC, 'p_tol = tol or _get_tolerance(p)', 'p_tol = _get_tolerance(p) if tol is None else tol'))
E('C02', 'rename temporaries', (CALC, 'a0_tol = _get_tolerance(a0)\n    h_tol = a0_tol', 'origin_tol = _get_tolerance(a0)\n    a0_tol = origin_tol\n    h_tol = origin_tol'))
E('C02', 'closed test as two stores', (CALC, '        idx[(idx < 0) | (idx >= len(bins))] = -1', '        idx[idx >= len(bins)] = -1\n        idx[idx < 0] = -1'))
E('C02', 'positional right_continuous', (CAT, '        idx = bin1d_vec(self.get_magnitudes(), mag_bins, tol=tol, right_continuous=True)\n        # events below', '        idx = bin1d_vec(self.get_magnitudes(), mag_bins, tol, True)\n        # events below'))
E('C02', 'rint for round', (CALC, 'start = numpy.round(scale * start)', 'start = numpy.rint(scale * start)'))

# ------------------------------------------------------------------------------------------------ C09
M('C09', 'GE searchsorted right', 'C09-D2', (STA, 'return eyc[numpy.searchsorted(ex, val)]', "return eyc[numpy.searchsorted(ex, val, side='right')]"))
M('C09', 'LE lost -1', 'C09-D2', (STA, "return ey[numpy.searchsorted(ex, val, side='right') - 1]", "return ey[numpy.searchsorted(ex, val, side='right')]"))
M('C09', 'LE side left', 'C09-D2', (STA, "return ey[numpy.searchsorted(ex, val, side='right') - 1]", "return ey[numpy.searchsorted(ex, val, side='left') - 1]"))
M('C09', 'GE un-reversed', 'C09-D2', (STA, 'eyc = ey[::-1]', 'eyc = ey'))
M('C09', 'GE short-circuit >=', 'C09-D2', (STA, '    if val > ex[-1]:\n        return 0.0', '    if val >= ex[-1]:\n        return 0.0'))
M('C09', 'LE short-circuit <=', 'C09-D2', (STA, '    if val < ex[0]:\n        return 0.0', '    if val <= ex[0]:\n        return 0.0'))
M('C09', 'GE short-circuit removed', 'C09-D2', (STA, '    if val > ex[-1]:\n        return 0.0\n', ''))
M('C09', 'LE lower short-circuit removed', 'C09-D2', (STA, '    if val < ex[0]:\n        return 0.0\n', ''))
M('C09', 'GE short-circuit value swapped', 'C09-D2', (STA, '    if val > ex[-1]:\n        return 0.0\n    if val < ex[0]:\n        return 1.0', '    if val > ex[-1]:\n        return 1.0\n    if val < ex[0]:\n        return 0.0'))
M('C09', 'ecdf ramp from 0', 'C09-D2', (STA, 'ys = numpy.arange(1, len(x) + 1) / float(len(x))', 'ys = numpy.arange(0, len(x)) / float(len(x))'))
M('C09', 'get_quantiles swapped pair', 'C09-D3', (STA, 'return delta_1, delta_2', 'return delta_2, delta_1'))
M('C09', 'get_quantiles swapped args', 'C09-D3', (STA, 'delta_1 = greater_equal_ecdf(sim_counts, obs_count)', 'delta_1 = greater_equal_ecdf(obs_count, sim_counts)'))
M('C09', 'empty guard removed', 'C09-D3', (STA, "    x = numpy.asarray(x)\n    if x.shape[0] == 0:\n        return None\n    if not cdf:\n        ex, ey = ecdf(x)\n    else:\n        ex, ey = cdf\n\n    eyc", "    x = numpy.asarray(x)\n    if not cdf:\n        ex, ey = ecdf(x)\n    else:\n        ex, ey = cdf\n\n    eyc"))
M('C09', 'value arithmetic', 'C09-D1', (STA, "return ey[numpy.searchsorted(ex, val, side='right') - 1]", "return ey[numpy.searchsorted(ex, val + 1e-9, side='right') - 1]"))
M('C09', 'binned uses GE', 'C09-D3', (STA, 'lambda val: less_equal_ecdf(x, val, cdf=(ex, ey))', 'lambda val: greater_equal_ecdf(x, val, cdf=(ex, ey))'))
E('C09', 'GE as 1 - ey[L-1] guarded', (STA, '    return eyc[numpy.searchsorted(ex, val)]', '    return eyc[numpy.searchsorted(ex, val, side=\'left\')]'))
E('C09', 'len for shape', (STA, "    x = numpy.asarray(x)\n    if x.shape[0] == 0:\n        return None\n    if not cdf:\n        ex, ey = ecdf(x)\n    else:\n        ex, ey = cdf\n    # some", "    x = numpy.asarray(x)\n    if len(x) == 0:\n        return None\n    if not cdf:\n        ex, ey = ecdf(x)\n    else:\n        ex, ey = cdf\n    # some"))
E('C09', 'flip for [::-1]', (STA, 'eyc = ey[::-1]', 'eyc = numpy.flip(ey)'))
E('C09', 'ramp without float()', (STA, 'ys = numpy.arange(1, len(x) + 1) / float(len(x))', 'n = len(x)\n    ys = numpy.arange(1, n + 1) / n'))

# ------------------------------------------------------------------------------------------------ C07
M('C07', 'delta1 without -eps', 'C07-D1', (POI, 'delta1 = 1.0 - scipy.stats.poisson.cdf(obs_cnt - epsilon, fore_cnt)', 'delta1 = 1.0 - scipy.stats.poisson.cdf(obs_cnt, fore_cnt)'))
M('C07', 'delta2 minus eps', 'C07-D1', (POI, 'delta2 = scipy.stats.poisson.cdf(obs_cnt + epsilon, fore_cnt)', 'delta2 = scipy.stats.poisson.cdf(obs_cnt - epsilon, fore_cnt)'))
M('C07', 'delta1 complement lost', 'C07-D1', (POI, 'delta1 = 1.0 - scipy.stats.poisson.cdf(obs_cnt - epsilon, fore_cnt)', 'delta1 = scipy.stats.poisson.cdf(obs_cnt - epsilon, fore_cnt)'))
M('C07', 'deltas swapped in return', 'C07-D1', (POI, '    return delta1, delta2\n\n\ndef _t_test', '    return delta2, delta1\n\n\ndef _t_test'))
M('C07', 'epsilon = 1.0 at call', 'C07-D1', (POI, '    epsilon = 1e-6\n\n    # stores the actual result of the number test\n    delta1, delta2 = _number_test_ndarray', '    epsilon = 1.0\n\n    # stores the actual result of the number test\n    delta1, delta2 = _number_test_ndarray'))
M('C07', 'args swapped at call', 'C07-D1', (POI, '_number_test_ndarray(fore_cnt, obs_cnt, epsilon=epsilon)', '_number_test_ndarray(obs_cnt, fore_cnt, epsilon=epsilon)'))
M('C07', 'quantile swapped', 'C07-D1', (POI, "    result.name = 'Poisson N-Test'\n    result.observed_statistic = obs_cnt\n    result.quantile = (delta1, delta2)", "    result.name = 'Poisson N-Test'\n    result.observed_statistic = obs_cnt\n    result.quantile = (delta2, delta1)"))
M('C07', 'mu and k swapped', 'C07-D1', (POI, 'delta2 = scipy.stats.poisson.cdf(obs_cnt + epsilon, fore_cnt)', 'delta2 = scipy.stats.poisson.cdf(fore_cnt, obs_cnt + epsilon)'))
M('C07', 'nbd tau/upsilon swapped', 'C07-D2', (BIN, 'delta2 = scipy.stats.nbinom.cdf(obs_cnt + epsilon, tau, upsilon, loc=0)', 'delta2 = scipy.stats.nbinom.cdf(obs_cnt + epsilon, upsilon, tau, loc=0)'))
M('C07', 'nbd upsilon complement lost', 'C07-D2', (BIN, 'upsilon = 1.0 - ((var - mean) / var)', 'upsilon = ((var - mean) / var)'))
M('C07', 'nbd tau denominator', 'C07-D2', (BIN, 'tau = (mean**2 /(var - mean))', 'tau = (mean**2 /(var + mean))'))
M('C07', 'nbd tau mean not squared', 'C07-D2', (BIN, 'tau = (mean**2 /(var - mean))', 'tau = (mean /(var - mean))'))
M('C07', 'nbd delta1 without -eps', 'C07-D2', (BIN, 'delta1 = 1.0 - scipy.stats.nbinom.cdf(obs_cnt - epsilon, tau, upsilon, loc=0)', 'delta1 = 1.0 - scipy.stats.nbinom.cdf(obs_cnt, tau, upsilon, loc=0)'))
M('C07', 'catalog get_quantiles swapped', 'C07-D3', (CEV, 'delta_1, delta_2 = get_quantiles(event_counts, obs_count)', 'delta_1, delta_2 = get_quantiles(obs_count, event_counts)'))
M('C07', 'catalog quantile swapped', 'C07-D3', (CEV, "                                     observed_statistic=obs_count,\n                                     quantile=(delta_1, delta_2),", "                                     observed_statistic=obs_count,\n                                     quantile=(delta_2, delta_1),"))
M('C07', 'catalog skips empty catalogs', 'C07-D3', (CEV, '        event_counts.append(catalog.event_count)\n    obs_count', '        if catalog.event_count > 0:\n            event_counts.append(catalog.event_count)\n    obs_count'))
E('C07', 'upsilon as mean/var', (BIN, 'upsilon = 1.0 - ((var - mean) / var)', 'upsilon = mean / var'))
E('C07', 'tau with product', (BIN, 'tau = (mean**2 /(var - mean))', 'tau = mean * mean / (var - mean)'))
E('C07', 'delta1 exact integer form', (POI, 'delta1 = 1.0 - scipy.stats.poisson.cdf(obs_cnt - epsilon, fore_cnt)', 'delta1 = 1.0 - scipy.stats.poisson.cdf(obs_cnt - 1, fore_cnt)'))
E('C07', 'delta1 via sf', (POI, 'delta1 = 1.0 - scipy.stats.poisson.cdf(obs_cnt - epsilon, fore_cnt)', 'delta1 = scipy.stats.poisson.sf(obs_cnt - epsilon, fore_cnt)'))
E('C07', 'kw mu', (POI, 'delta2 = scipy.stats.poisson.cdf(obs_cnt + epsilon, fore_cnt)', 'delta2 = scipy.stats.poisson.cdf(obs_cnt + epsilon, mu=fore_cnt)'))

# ------------------------------------------------------------------------------------------------ C08
M('C08', 'np import removed', 'G-UNDEF', (BIN, 'import numpy as np\n', ''))
M('C08', 'find_repeats back', 'G-API', (POI, '    _, repcounts = numpy.unique(r, return_counts=True)\n    repnum = repcounts[repcounts > 1]\n', '    replist, repnum = scipy.stats.find_repeats(r)\n'))
M('C08', 'N2 - N1', 'C08-D3', (POI, 'information_gain = (numpy.sum(X1 - X2) - (N1 - N2)) / N\n\n    # Compute variance of (X1-X2) using Equation (18)  of Rhoades et al. 2011\n    first_term = (numpy.sum(numpy.power((X1 - X2), 2))) / (N - 1)', 'information_gain = (numpy.sum(X1 - X2) - (N2 - N1)) / N\n\n    # Compute variance of (X1-X2) using Equation (18)  of Rhoades et al. 2011\n    first_term = (numpy.sum(numpy.power((X1 - X2), 2))) / (N - 1)'))
M('C08', 'variance with N', 'C08-D3', (POI, 'first_term = (numpy.sum(numpy.power((X1 - X2), 2))) / (N - 1)\n    second_term = numpy.power(numpy.sum(X1 - X2), 2) / (numpy.power(N, 2) - N)\n    forecast_variance = first_term - second_term\n\n    forecast_std = numpy.sqrt(forecast_variance)\n    t_statistic = information_gain / (forecast_std / numpy.sqrt(N))\n\n    # Obtaining the Critical Value of T from T distribution.\n    df = N - 1\n    t_critical = scipy.stats.t.ppf(1 - (alpha / 2),\n', 'first_term = (numpy.sum(numpy.power((X1 - X2), 2))) / N\n    second_term = numpy.power(numpy.sum(X1 - X2), 2) / (numpy.power(N, 2) - N)\n    forecast_variance = first_term - second_term\n\n    forecast_std = numpy.sqrt(forecast_variance)\n    t_statistic = information_gain / (forecast_std / numpy.sqrt(N))\n\n    # Obtaining the Critical Value of T from T distribution.\n    df = N - 1\n    t_critical = scipy.stats.t.ppf(1 - (alpha / 2),\n'))
M('C08', 'ig_upper = gain - ...', 'C08-D2', (POI, 'ig_upper = information_gain + (t_critical * forecast_std / numpy.sqrt(N))\n\n    # If T value greater than T critical, Then both Lower and Upper Confidence Interval limits will be greater than Zero.\n    # If above Happens, Then It means that Forecasting Model 1 is better than Forecasting Model 2.\n    return {\'t_statistic\': t_statistic,\n            \'t_critical\': t_critical,\n            \'information_gain\': information_gain,\n            \'ig_lower\': ig_lower,\n            \'ig_upper\': ig_upper}\n\n\ndef _w_test', 'ig_upper = information_gain - (t_critical * forecast_std / numpy.sqrt(N))\n\n    # If T value greater than T critical, Then both Lower and Upper Confidence Interval limits will be greater than Zero.\n    # If above Happens, Then It means that Forecasting Model 1 is better than Forecasting Model 2.\n    return {\'t_statistic\': t_statistic,\n            \'t_critical\': t_critical,\n            \'information_gain\': information_gain,\n            \'ig_lower\': ig_lower,\n            \'ig_upper\': ig_upper}\n\n\ndef _w_test'))
M('C08', 'alpha not halved', 'C08-D3', (POI, 't_critical = scipy.stats.t.ppf(1 - (alpha / 2),\n                                   df)', 't_critical = scipy.stats.t.ppf(1 - alpha,\n                                   df)'))
M('C08', 'gain divisor N-1', 'C08-D3', (POI, 'information_gain = (numpy.sum(X1 - X2) - (N1 - N2)) / N\n\n    # Compute variance of (X1-X2) using Equation (18)  of Rhoades et al. 2011\n    first_term = (numpy.sum(numpy.power((X1 - X2), 2))) / (N - 1)\n    second_term = numpy.power(numpy.sum(X1 - X2), 2) / (numpy.power(N, 2) - N)\n    forecast_variance = first_term - second_term\n\n    forecast_std = numpy.sqrt(forecast_variance)\n    t_statistic = information_gain / (forecast_std / numpy.sqrt(N))\n\n    # Obtaining the Critical Value of T from T distribution.\n    df = N - 1\n    t_critical = scipy.stats.t.ppf(1 - (alpha / 2),\n', 'information_gain = (numpy.sum(X1 - X2) - (N1 - N2)) / (N - 1)\n\n    # Compute variance of (X1-X2) using Equation (18)  of Rhoades et al. 2011\n    first_term = (numpy.sum(numpy.power((X1 - X2), 2))) / (N - 1)\n    second_term = numpy.power(numpy.sum(X1 - X2), 2) / (numpy.power(N, 2) - N)\n    forecast_variance = first_term - second_term\n\n    forecast_std = numpy.sqrt(forecast_variance)\n    t_statistic = information_gain / (forecast_std / numpy.sqrt(N))\n\n    # Obtaining the Critical Value of T from T distribution.\n    df = N - 1\n    t_critical = scipy.stats.t.ppf(1 - (alpha / 2),\n'))
M('C08', 'binary gain divided by events', 'C08-D3', (BIN, '    information_gain = (numpy.sum(X1 - X2) - (N1 - N2)) / N\n', '    information_gain = (numpy.sum(X1 - X2) - (N1 - N2)) / N_p\n'))
M('C08', 'W abs dropped in ranks', 'C08-D', (POI, 'r = scipy.stats.rankdata(abs(d))', 'r = scipy.stats.rankdata(d)'))
M('C08', 'W max for min', 'C08-D3', (POI, 't = min(r_plus, r_minus)', 't = max(r_plus, r_minus)'))
M('C08', 'W one-sided p', 'C08-D3', (POI, 'prob = 2. * scipy.stats.distributions.norm.sf(abs(z))', 'prob = scipy.stats.distributions.norm.sf(abs(z))'))
M('C08', 'W p without abs', 'C08-D', (POI, 'prob = 2. * scipy.stats.distributions.norm.sf(abs(z))', 'prob = 2. * scipy.stats.distributions.norm.sf(z)'))
M('C08', 'W r_plus >=', 'C08-D', (POI, 'r_plus = numpy.sum((d > 0) * r, axis=0)', 'r_plus = numpy.sum((d >= 0) * r, axis=0)'))
M('C08', 'W tie correction factor', 'C08-D3', (POI, 'se -= 0.5 * (repnum * (repnum * repnum - 1)).sum()', 'se -= (repnum * (repnum * repnum - 1)).sum()'))
M('C08', 'W ordinal ranks', 'C08-D3', (POI, 'r = scipy.stats.rankdata(abs(d))', 'r = numpy.argsort(numpy.argsort(abs(d))) + 1.'))
M('C08', 'W median swapped', 'C08-D4', (POI, 'median_value = (N1 - N2) / N', 'median_value = (N2 - N1) / N'))
M('C08', 'T scale dropped for benchmark', 'C08-D4', (POI, '    target_event_rate_forecast2, n_fore2 = benchmark_forecast.target_event_rates(\n        observed_catalog, scale=scale)\n\n    # call the primative', '    target_event_rate_forecast2, n_fore2 = benchmark_forecast.target_event_rates(\n        observed_catalog)\n\n    # call the primative'))
M('C08', 'T totals swapped at call', 'C08-D4', (POI, 'n_fore1, n_fore2, alpha=alpha)', 'n_fore2, n_fore1, alpha=alpha)'))
M('C08', 'T slots swapped', 'C08-D4', (POI, "result.test_distribution = (out['ig_lower'], out['ig_upper'])\n    result.observed_statistic = out['information_gain']\n    result.quantile = (out['t_statistic'], out['t_critical'])\n    result.sim_name = (forecast.name, benchmark_forecast.name)\n    result.obs_name = observed_catalog.name\n    result.status = 'normal'\n    result.min_mw = numpy.min(forecast.magnitudes)", "result.test_distribution = (out['ig_upper'], out['ig_lower'])\n    result.observed_statistic = out['information_gain']\n    result.quantile = (out['t_statistic'], out['t_critical'])\n    result.sim_name = (forecast.name, benchmark_forecast.name)\n    result.obs_name = observed_catalog.name\n    result.status = 'normal'\n    result.min_mw = numpy.min(forecast.magnitudes)"))
E('C08', 'square for power', (POI, 'first_term = (numpy.sum(numpy.power((X1 - X2), 2))) / (N - 1)\n    second_term = numpy.power(numpy.sum(X1 - X2), 2) / (numpy.power(N, 2) - N)\n    forecast_variance = first_term - second_term\n\n    forecast_std = numpy.sqrt(forecast_variance)\n    t_statistic = information_gain / (forecast_std / numpy.sqrt(N))\n\n    # Obtaining the Critical Value of T from T distribution.\n    df = N - 1\n    t_critical = scipy.stats.t.ppf(1 - (alpha / 2),\n', 'first_term = (numpy.sum(numpy.square(X1 - X2))) / (N - 1)\n    second_term = numpy.sum(X1 - X2) ** 2 / (N * (N - 1))\n    forecast_variance = first_term - second_term\n\n    forecast_std = numpy.sqrt(forecast_variance)\n    t_statistic = information_gain / (forecast_std / numpy.sqrt(N))\n\n    # Obtaining the Critical Value of T from T distribution.\n    df = N - 1\n    t_critical = scipy.stats.t.ppf(1 - (alpha / 2),\n'))
E('C08', 'sum of differences split', (POI, 'information_gain = (numpy.sum(X1 - X2) - (N1 - N2)) / N\n\n    # Compute variance of (X1-X2) using Equation (18)  of Rhoades et al. 2011\n    first_term = (numpy.sum(numpy.power((X1 - X2), 2))) / (N - 1)', 'information_gain = (numpy.sum(X1) - numpy.sum(X2) - N1 + N2) / N\n\n    # Compute variance of (X1-X2) using Equation (18)  of Rhoades et al. 2011\n    first_term = (numpy.sum(numpy.power((X1 - X2), 2))) / (N - 1)'))
E('C08', 'W min args swapped', (POI, 't = min(r_plus, r_minus)', 't = min(r_minus, r_plus)'))
M('C02', 'point tolerance from origin', 'C02-D2', (CALC, 'p_tol = tol or _get_tolerance(p)', 'p_tol = tol or a0_tol'))

# ------------------------------------------------------------------------------------------------ C06
M('C06', 'default side (poisson)', 'C06-D3', (POI, "pnts = numpy.searchsorted(sampling_weights, random_numbers, side='right')", "pnts = numpy.searchsorted(sampling_weights, random_numbers)"))
M('C06', 'side left (brier loop)', 'C06-D3', (BRI, "loc = numpy.searchsorted(sampling_weights, random_num,\n                                     side='right')", "loc = numpy.searchsorted(sampling_weights, random_num,\n                                     side='left')"))
M('C06', 'if seed: (poisson)', 'C06-D1', (POI, '    if seed is not None:\n        numpy.random.seed(seed)', '    if seed:\n        numpy.random.seed(seed)'))
M('C06', 'if seed: (MLL)', 'C06-D1', (CEV, '    # set seed\n    if seed is not None:\n        numpy.random.seed(seed)\n\n    test_distribution = []', '    # set seed\n    if seed:\n        numpy.random.seed(seed)\n\n    test_distribution = []'))
M('C06', 'seed() without arg', 'C06-D1', (BIN, '    if seed is not None:\n        numpy.random.seed(seed)', '    if seed is not None:\n        numpy.random.seed()'))
M('C06', 'seed constant', 'C06-D1', (BRI, '    if seed is not None:\n        numpy.random.seed(seed)', '    if seed is not None:\n        numpy.random.seed(42)'))
M('C06', 'seeding after the loop', 'C06-D1', (BRI, '    # set seed for the likelihood test\n    if seed is not None:\n        numpy.random.seed(seed)\n', ''), (BRI, '    obs_brier = _brier_score_ndarray(forecast_data.data, observed_data)\n', '    if seed is not None:\n        numpy.random.seed(seed)\n    obs_brier = _brier_score_ndarray(forecast_data.data, observed_data)\n'))
M('C06', 'seed not forwarded', 'C06-D1', (POI, '        gridded_forecast.spatial_counts(), gridded_catalog_data,\n        num_simulations=num_simulations,\n        seed=seed,', '        gridded_forecast.spatial_counts(), gridded_catalog_data,\n        num_simulations=num_simulations,\n        seed=None,'))
M('C06', 'normalise by sum (poisson)', 'C06-D4', (POI, '    sampling_weights = numpy.cumsum(forecast_data.ravel())\n    sampling_weights = sampling_weights / sampling_weights[-1]', '    sampling_weights = numpy.cumsum(forecast_data.ravel()) / numpy.sum(forecast_data)'))
M('C06', 'masked weights (binary)', 'C06-D5', (BIN, 'sampling_weights = numpy.cumsum(forecast_data.filled(0.0).ravel())', 'sampling_weights = numpy.cumsum(forecast_data.ravel())'))
M('C06', 'drop fill(0) (poisson)', 'C06-D6', (POI, '    sim_fore.fill(0)\n', ''))
M('C06', 'reset only on one path (binary)', 'C06-D6', (BIN, "    # Reset simulation array to zero, but don't reallocate\n    sim_fore.fill(0)\n    if random_numbers is None:\n        num_active_cells = 0", "    if random_numbers is None:\n        # Reset simulation array to zero, but don't reallocate\n        sim_fore.fill(0)\n        num_active_cells = 0"))
M('C06', 'quantile <', 'C06-D8', (POI, 'qs = numpy.sum(simulated_ll <= obs_ll) / num_simulations', 'qs = numpy.sum(simulated_ll < obs_ll) / num_simulations'))
M('C06', 'quantile divisor +1', 'C06-D8', (BIN, 'qs = numpy.sum(simulated_ll <= obs_ll) / num_simulations', 'qs = numpy.sum(simulated_ll <= obs_ll) / (num_simulations + 1)'))
M('C06', 'quantile reversed', 'C06-D8', (BRI, 'qs = numpy.sum(simulated_brier <= obs_brier) / num_simulations', 'qs = numpy.sum(obs_brier <= simulated_brier) / num_simulations'))
M('C06', 'poisson count in CL', 'C06-D7', (POI, '        if use_observed_counts:\n            num_events_to_simulate = int(n_obs)\n        else:', '        if not use_observed_counts:\n            num_events_to_simulate = int(n_obs)\n        else:'))
M('C06', 'n_fore events', 'C06-D7', (POI, '        if use_observed_counts:\n            num_events_to_simulate = int(n_obs)', '        if use_observed_counts:\n            num_events_to_simulate = int(n_fore)'))
M('C06', 'rejection loop without ==0 test', 'C06-D7', (BIN, '            if sim_fore[loc] == 0:\n               sim_fore[loc] = 1\n               num_active_cells = num_active_cells + 1', '            sim_fore[loc] = 1\n            num_active_cells = num_active_cells + 1'))
M('C06', 'assertion dropped', 'C06-D7', (BRI, '    assert sim_fore.sum() == sim_cells, "simulated the wrong number of events!"\n', ''))
M('C06', 'python random', 'C06-D2', (BRI, 'random_num = numpy.random.uniform(0,1)', 'random_num = numpy.random.default_rng().uniform(0,1)'))
M('C06', 'active cells = events', 'C06-D7', (BIN, 'n_active_cells = len(numpy.unique(numpy.nonzero(observed_data.ravel())))', 'n_active_cells = int(numpy.sum(observed_data))'))
E('C06', 'positional right', (POI, "pnts = numpy.searchsorted(sampling_weights, random_numbers, side='right')", "pnts = numpy.searchsorted(sampling_weights, random_numbers, 'right')"))
E('C06', 'normalise by max', (POI, 'sampling_weights = sampling_weights / sampling_weights[-1]', 'sampling_weights = sampling_weights / sampling_weights.max()'))
E('C06', 'seed != None', (POI, '    if seed is not None:\n        numpy.random.seed(seed)', '    if seed != None:\n        numpy.random.seed(seed)'))
E('C06', 'one-line weights', (BRI, '    sampling_weights = numpy.cumsum(forecast_data.filled(0.0).ravel())\n    sampling_weights = sampling_weights / sampling_weights[-1]', '    cumulative = numpy.cumsum(forecast_data.filled(0.0).ravel())\n    sampling_weights = cumulative / cumulative[-1]'))

# ------------------------------------------------------------------------------------------------ C16
M('C16', 'counts instead of indicator (brier)', 'C16-D', (BRI, 'brier_cell = np.square(prob_success.ravel() - (observations.ravel() > 0))', 'brier_cell = np.square(prob_success.ravel() - observations.ravel())'))
M('C16', 'brier sign', 'C16-D3', (BRI, 'brier = -2 * brier_cell.sum()', 'brier = 2 * brier_cell.sum()'))
M('C16', 'brier divide by shape[0] only', 'C16-D3', (BRI, '    brier = -2 * brier_cell.sum() / observations.size', '    brier = -2 * brier_cell.sum() / observations.shape[0]'))
M('C16', 'brier divided dimension by dimension again', 'C16-D3', (BRI, '    brier = -2 * brier_cell.sum() / observations.size', '    brier = -2 * brier_cell.sum()\n    for n_dim in observations.shape:\n        brier /= n_dim'))
M('C16', 'brier prob of zero', 'C16-D3', (BRI, 'prob_success = 1 - poisson.cdf(0, forecast)', 'prob_success = poisson.cdf(0, forecast)'))
M('C16', 'binary active uses counts', 'C16-D', (BIN, "        first_term = numpy.log(1.0 - numpy.exp(-rates[active]))", "        first_term = numpy.asarray(catalog).ravel()[active] * numpy.log(1.0 - numpy.exp(-rates[active]))"))
M('C16', 'binary second term sign', 'C16-D3', (BIN, '    second_term = -rates[~active]', '    second_term = rates[~active]'))
M('C16', 'binary inactive over all bins', 'C16-D3', (BIN, '    second_term = -rates[~active]', '    second_term = -rates'))
M('C16', 'binary masked .data of product', 'C16-D', (BIN, '    rates = numpy.asarray(forecast, dtype=float).ravel()\n    active = numpy.asarray(catalog).ravel() > 0\n', '    rates = numpy.asarray(forecast, dtype=float).ravel()\n    active = numpy.asarray(catalog).ravel() > 0\n    masked = numpy.ma.masked_where(rates <= 0.0, rates)\n    rates = (1.0 * masked).data\n'))
M('C16', 'simulated score other callee', 'C16-D4', (BRI, '        current_brier = _brier_score_ndarray(forecast_data.data, sim_fore)', '        current_brier = -2 * numpy.mean(numpy.square(1 - numpy.exp(-forecast_data.data.ravel()) - sim_fore.ravel()))'))
M('C16', 'masked forecast into kernel', 'C16-D1', (BRI, '    obs_brier = _brier_score_ndarray(forecast_data.data, observed_data)', '    obs_brier = _brier_score_ndarray(forecast_data, observed_data)'))
M('C16', 'observed score from simulation', 'C16-D4', (BIN, '    obs_ll = binary_joint_log_likelihood_ndarray(forecast_data.data, observed_data)', '    obs_ll = binary_joint_log_likelihood_ndarray(forecast_data.data, sim_fore)'))
M('C16', 'binary S-test passes full data', 'C16-D4', (BIN, '    qs, obs_ll, simulated_ll = _binary_likelihood_test(\n        gridded_forecast.spatial_counts(),', '    qs, obs_ll, simulated_ll = _binary_likelihood_test(\n        gridded_forecast.data,'))
M('C16', 'bill scale inverted', 'C16-D3', (POI, '    scale = catalog.event_count / forecast.event_count\n    target_idx', '    scale = forecast.event_count / catalog.event_count\n    target_idx'))
E('C16', 'brier via exp', (BRI, 'prob_success = 1 - poisson.cdf(0, forecast)', 'prob_success = 1 - numpy.exp(-forecast)'))
E('C16', 'brier != 0', (BRI, '(observations.ravel() > 0)', '(observations.ravel() != 0)'))
E('C16', 'brier divide by size', (BRI, '    brier = -2 * brier_cell.sum() / observations.size', '    brier = -2 * brier_cell.sum()\n    brier /= observations.size'))
E('C16', 'binary expm1-free reorder', (BIN, '    return numpy.sum(first_term) + numpy.sum(second_term)', '    return numpy.sum(second_term) + numpy.sum(first_term)'))

# ------------------------------------------------------------------------------------------------ C04
M('C04', '<= mapped to lt', 'C04-D1', (CAT, "'<=': operator.le,", "'<=': operator.lt,"))
M('C04', 'operands swapped', 'C04-D1', (CAT, "                filtered = self.catalog[operators[oper](self.catalog[name], float(value))]\n            else:\n                name, oper, value = statements.split(' ')", "                filtered = self.catalog[operators[oper](float(value), self.catalog[name])]\n            else:\n                name, oper, value = statements.split(' ')"))
M('C04', 'int(float(value))', 'C04-D1', (CAT, "                    name, oper, value = filt.split(' ')\n                    filtered = filtered[operators[oper](filtered[name], float(value))]", "                    name, oper, value = filt.split(' ')\n                    filtered = filtered[operators[oper](filtered[name], int(float(value)))]"))
M('C04', 'mask from self.catalog on filtered', 'C04-D2', (CAT, "                    name, oper, value = filt.split(' ')\n                    filtered = filtered[operators[oper](filtered[name], float(value))]", "                    name, oper, value = filt.split(' ')\n                    filtered = filtered[operators[oper](self.catalog[name], float(value))]"))
M('C04', 'filters[:-1]', 'C04-D2', (CAT, '            for filt in filters:', '            for filt in filters[:-1]:'))
M('C04', 'in-place sort', 'C04-D4', (CAT, '        # can return new instance of class or original instance\n        self.filters = statements', '        self.catalog.sort(order=\'origin_time\')\n        # can return new instance of class or original instance\n        self.filters = statements'))
M('C04', 'in_place False assigns self.catalog', 'C04-D4', (CAT, '        self.filters = statements\n        if in_place:\n            self.catalog = filtered\n            return self', '        self.filters = statements\n        self.catalog = filtered\n        if in_place:\n            return self'))
M('C04', 'spatial keeps mask', 'C04-D5', (CAT, 'filtered = self.catalog[~mask]', 'filtered = self.catalog[mask]'))
M('C04', 'spatial lat/lon swapped', 'C0', (CAT, 'mask = self.region.get_masked(self.get_longitudes(), self.get_latitudes())', 'mask = self.region.get_masked(self.get_latitudes(), self.get_longitudes())'))
M('C04', 'datetime not rewritten (list)', 'C04-D3', (CAT, "                    # we map the requested datetime to an epoch time so we act like the user requested origin_time\n                    name = 'origin_time'\n", "                    # we map the requested datetime to an epoch time so we act like the user requested origin_time\n                    name = 'datetime'\n"))
M('C04', 'shortcut on remembered filters', 'C04-D7', (CAT, '        if statements is None:\n            statements = self.filters\n', '        if statements is None:\n            statements = self.filters\n        elif in_place and statements == self.filters:\n            return self\n'))
M('C04', 'load_catalog skips filter()', 'C04-D6', (INI, '            return_val = return_val.filter().filter_spatial()', '            return_val = return_val.filter_spatial()'))
M('C04', 'epoch via float timestamp', 'C15-D', (TIM, '    dt = strptime_to_utc_datetime(time_string, format)\n    return datetime_to_utc_epoch(dt)', '    dt = strptime_to_utc_datetime(time_string, format)\n    return int(dt.timestamp() * 1000)'))
M('C04', 'new instance loses region', 'C04-D4', (CAT, "            inst = cls(data=filtered, catalog_id=self.catalog_id, format=self.format, name=self.name,\n                       region=self.region, filters=statements)", "            inst = cls(data=filtered, catalog_id=self.catalog_id, format=self.format, name=self.name,\n                       filters=statements)"))
E('C04', 'copy removed', (CAT, 'filtered = numpy.copy(self.catalog)', 'filtered = self.catalog'))
E('C04', 'mask temporary', (CAT, "                    name, oper, value = filt.split(' ')\n                    filtered = filtered[operators[oper](filtered[name], float(value))]", "                    name, oper, value = filt.split(' ')\n                    keep = operators[oper](filtered[name], float(value))\n                    filtered = filtered[keep]"), allow_inconclusive=True)
E('C04', 'logical_not', (CAT, 'filtered = self.catalog[~mask]', 'filtered = self.catalog[numpy.logical_not(mask)]'))

# ------------------------------------------------------------------------------------------------ C15
M('C15', 'ms / 1000 -> //', 'C15-D1', (TIM, 'epoch_time = epoch_time_milli / 1000', 'epoch_time = epoch_time_milli // 1000'))
M('C15', 'int(1000*total_seconds)', 'C15-D1', (TIM, "    return (dt - epoch) // datetime.timedelta(milliseconds=1)", "    return int(1000.0 * (dt - epoch).total_seconds())"))
M('C15', 'split seconds truncation', 'C15-D1', (TIM, "    return (dt - epoch) // datetime.timedelta(milliseconds=1)", "    delta = dt - epoch\n    return int(delta.total_seconds()) * 1000 + delta.microseconds // 1000"))
M('C15', 'unit microsecond', 'C15-D1', (TIM, "datetime.timedelta(milliseconds=1)", "datetime.timedelta(microseconds=1)"))
M('C15', 'tz dropped', 'C15-D2', (TIM, 'dt = datetime.datetime.fromtimestamp(epoch_time, datetime.timezone.utc)', 'dt = datetime.datetime.fromtimestamp(epoch_time)'))
M('C15', 'factor 1e6', 'C15-D1', (TIM, 'epoch_time = epoch_time_milli / 1000', 'epoch_time = epoch_time_milli / 1e6'))
M('C15', 'seconds per day', 'C15-D1', ('csep/utils/constants.py', 'SECONDS_PER_DAY = 60*60*24', 'SECONDS_PER_DAY = 60*60*12'))
M('C15', 'naive not tagged', 'C15-D2', (TIM, "    if dt.tzinfo is None:\n        dt=dt.replace(tzinfo=datetime.timezone.utc)\n\n    if str", "    if str"))
M('C15', 'non-UTC accepted', 'C15-D2', (TIM, "    if str(dt.tzinfo) != 'UTC':\n        raise ValueError(f\"Timezone info must be UTC. tzinfo={dt.tzinfo}\")\n", ""))
M('C15', 'fraction sniff on colon', 'C15-D3', (TIM, "    if '.' in time_string:\n        format = \"%Y-%m-%d %H:%M:%S.%f\"", "    if ':' in time_string:\n        format = \"%Y-%m-%d %H:%M:%S.%f\""))
M('C15', 'leap uses following year', 'C15-D4', (TIM, "    num_days_per_year = 365.0\n    if calendar.isleap(test_date.year):\n        num_days_per_year = 366.0\n\n    # Compute number of days in months", "    num_days_per_year = 365.0\n    if calendar.isleap(test_date.year + 1):\n        num_days_per_year = 366.0\n\n    # Compute number of days in months"))
M('C15', 'months include current', 'C15-D4', (TIM, 'for i in range(1, test_date.month)])', 'for i in range(1, test_date.month + 1)])'))
M('C15', 'day not zero-based', 'C15-D4', (TIM, 'dec_year = test_date.year + (num_days + (test_date.day - 1) +', 'dec_year = test_date.year + (num_days + test_date.day +'))
M('C15', 'leap table feb off by one', 'C15-D4', (TIM, "    num_days = sum([calendar.monthrange(test_date.year, i)[1] for i in range(1, test_date.month)])", "    _cum = (0, 31, 59, 90, 120, 151, 181, 212, 243, 273, 304, 334)\n    num_days = _cum[test_date.month - 1]\n    if calendar.isleap(test_date.year) and test_date.month >= 2:\n        num_days += 1"))
E('C15', 'correct leap table', (TIM, "    num_days = sum([calendar.monthrange(test_date.year, i)[1] for i in range(1, test_date.month)])", "    _cum = (0, 31, 59, 90, 120, 151, 181, 212, 243, 273, 304, 334)\n    num_days = _cum[test_date.month - 1]\n    if calendar.isleap(test_date.year) and test_date.month > 2:\n        num_days += 1"))
E('C15', 'unit 1000 microseconds', (TIM, "datetime.timedelta(milliseconds=1)", "datetime.timedelta(microseconds=1000)"))
E('C15', 'round form', (TIM, "    return (dt - epoch) // datetime.timedelta(milliseconds=1)", "    return round(1000.0 * (dt - epoch).total_seconds())"))

# ------------------------------------------------------------------------------------------------ C13
M('C13', 'drop _idx = 0 (list)', 'C13-D2', (FOR, "            if self._idx >= self.n_cat:\n                self._idx = 0\n                raise StopIteration()", "            if self._idx >= self.n_cat:\n                raise StopIteration()"))
M('C13', 'drop _idx = 0 (generator)', 'C13-D2', (FOR, "                self.n_cat = self._idx\n                self._idx = 0\n                raise StopIteration()", "                self.n_cat = self._idx\n                raise StopIteration()"))
M('C13', 'drop apply_filters = False', 'C13-D5', (FOR, "                    if self.apply_filters:\n                        self.apply_filters = False\n", ""))
M('C13', 'apply_filters off also without cache', 'C13-D5', (FOR, "                else:\n                    self.catalogs = self._catalogs\n                    del self._catalogs\n                    if self.apply_filters:\n                        self.apply_filters = False\n", "                else:\n                    self.catalogs = self._catalogs\n                    del self._catalogs\n                if self.apply_filters:\n                    self.apply_filters = False\n"))
M('C13', 'drop accumulator reset', 'C13-D4', (FOR, "        if self._idx == 0:\n            self._event_counts = []\n", ""))
M('C13', 'count before filters', 'C13-D4', (FOR, "        # apply filtering to catalogs, these can throw errors if not configured properly\n        if self.apply_filters:", "        self._event_counts.append(catalog.event_count)\n        # apply filtering to catalogs, these can throw errors if not configured properly\n        if self.apply_filters:"), (FOR, "                catalog = catalog.filter_spatial(self.region)\n\n        self._event_counts.append(catalog.event_count)\n", "                catalog = catalog.filter_spatial(self.region)\n"))
M('C13', 'return inside if', 'C13-D6', (FOR, "                                                  magnitudes=self.magnitudes, name=self.name)\n        return self.expected_rates", "                                                  magnitudes=self.magnitudes, name=self.name)\n            return self.expected_rates"))
M('C13', 'mean by i+1', 'C13-D7', (FOR, 'data = data / self.n_cat', 'data = data / (i + 1)'))
M('C13', 'n_cat guard dropped', 'C13-D3', (FOR, "            if self.n_cat is None:\n                self.n_cat = n_items\n", ""))
M('C13', 'break in evaluation loop', 'C13-D9', (CEV, "        event_counts.append(catalog.event_count)\n    obs_count", "        event_counts.append(catalog.event_count)\n        if i >= 999:\n            break\n    obs_count"))
M('C13', 'evaluation writes cursor', 'C13-D1', (CEV, "    event_counts = []\n    t0 = time.time()\n    for i, catalog in enumerate(forecast):", "    event_counts = []\n    forecast._idx = 0\n    t0 = time.time()\n    for i, catalog in enumerate(forecast):"))
M('C13', 'region not bound', 'C13-D7', (FOR, "                cat.region = self.region\n", ""))
M('C13', 'get_event_counts always iterates', 'C13-D8', (FOR, "        if len(self._event_counts) == 0:\n            # event counts is filled", "        if True:\n            # event counts is filled"))
E('C13', 'not self._event_counts', (FOR, "        if len(self._event_counts) == 0:\n            # event counts is filled", "        if not self._event_counts:\n            # event counts is filled"))
E('C13', 'rename local', (FOR, "            n_items = len(self.catalogs)\n            is_generator = False\n            if self.n_cat is None:\n                self.n_cat = n_items\n            assert self.n_cat == n_items", "            count = len(self.catalogs)\n            is_generator = False\n            if self.n_cat is None:\n                self.n_cat = count\n            assert self.n_cat == count"))

# ------------------------------------------------------------------------------------------------ C11
M('C11', '_scale *= val', 'C11-D1', (FOR, '        self._scale = val\n        return self', '        self._scale *= val\n        return self'))
M('C11', '_data rewritten by scale', 'C11-D1', (FOR, '        self._scale = val\n        return self', '        self._data = self._data * val\n        return self'))
M('C11', 'lookup in _data', 'C11-D', (FOR, '            rates = self.data[idx,idm]', '            rates = self._data[idx,idm]'))
M('C11', 'data returns stored array', 'C11-D1', (FOR, '        return self._data * self._scale', '        if numpy.isscalar(self._scale) and self._scale == 1:\n            return self._data\n        return self._data * self._scale'))
M('C11', 'spatial_counts axis 0', 'C11-D4', (FOR, '            return numpy.sum(self.data, axis=1)', '            return numpy.sum(self.data, axis=0)'))
M('C11', 'magnitude_counts axis 1', 'C11-D4', (FOR, '        return numpy.sum(self.data, axis=0)', '        return numpy.sum(self.data, axis=1)'))
M('C11', 'data[idm, idx]', 'C11-D3', (FOR, '            rates = self.data[idx,idm]', '            rates = self.data[idm,idx]'))
M('C11', 'rate column -1', 'C11-D2', (FOR, 'rates = data[:,-2].reshape(n_poly, n_mag_bins)', 'rates = data[:,-1].reshape(n_poly, n_mag_bins)'))
M('C11', 'flags in sorted order', 'C11-D2', (FOR, '        poly_mask = all_poly_mask[sorted_idx]', '        poly_mask = all_poly_mask[numpy.unique(all_polys, return_index=True, axis=0)[1]]'))
M('C11', 'cells in sorted order', 'C11-D2', (FOR, '        unique_poly = all_polys[sorted_idx]', '        unique_poly = numpy.unique(all_polys, axis=0)'))
M('C11', 'reshape transposed', 'C11-D2', (FOR, 'rates = data[:,-2].reshape(n_poly, n_mag_bins)', 'rates = data[:,-2].reshape(n_mag_bins, n_poly)'))
M('C11', 'origin uses lat1', 'C11-D2', (FOR, 'bboxes = [((i[0], i[2]), (i[0], i[3]), (i[1], i[3]), (i[1], i[2])) for i in unique_poly]', 'bboxes = [((i[0], i[3]), (i[0], i[2]), (i[1], i[2]), (i[1], i[3])) for i in unique_poly]'))
M('C11', 'mag column -3', 'C11-D2', (FOR, '        all_mws = data[:, -4]', '        all_mws = data[:, -3]'))
M('C11', 'csv loader magnitudes as text', 'C11-D5', (RDR, '    mws = data[0, 3:].astype(float)', '    mws = data[0, 3:]'))
M('C11', 'ndmin dropped', 'C11-D8', (FOR, 'data = numpy.loadtxt(ascii_fname, ndmin=2)', 'data = numpy.loadtxt(ascii_fname)'))
M('C11', 'get_magnitude_index closed', 'C', (FOR, 'idm = bin1d_vec(mags, self.magnitudes, tol=tol, right_continuous=True)', 'idm = bin1d_vec(mags, self.magnitudes, tol=tol)'))
M('C11', 'dat maps to None', 'C11-D6', (INI, "        'dat': GriddedForecast.load_ascii,", "        'dat': None,"))
M('C11', 'unsnapped cleaner_range', 'C01-D6', (CALC, 'scale = max(10**num_decimals_bins, _snap_to_integer(1 / h))', 'scale = max(10**num_decimals_bins, 1 / h)'), (CALC, 'd = _snap_to_integer(scale * h)', 'd = scale * h'))
E('C11', 'axis=-1', (FOR, '            return numpy.sum(self.data, axis=1)', '            return numpy.sum(self.data, axis=-1)'))
E('C11', 'method sum', (FOR, '        return numpy.sum(self.data, axis=0)', '        return self.data.sum(axis=0)'))
E('C11', 'cells via argsort of first index', (FOR, '        unique_poly = all_polys[sorted_idx]', '        _up, _fi = numpy.unique(all_polys, return_index=True, axis=0)\n        unique_poly = _up[numpy.argsort(_fi, kind=\'stable\')]'))

# ------------------------------------------------------------------------------------------------ C12
M('C12', 'yield after rebinding events', 'C12-D2', (CAT, "                    elif catalog_id == prev_id + 1:\n                        yield cls(data=events, catalog_id=prev_id, **kwargs)\n                        # add event to new event list\n                        if not empty:\n                            events = [temp_event]\n                        else:\n                            events = []\n                        prev_id = catalog_id", "                    elif catalog_id == prev_id + 1:\n                        # add event to new event list\n                        pending = events\n                        if not empty:\n                            events = [temp_event]\n                        else:\n                            events = []\n                        yield cls(data=events, catalog_id=prev_id, **kwargs)\n                        prev_id = catalog_id"))
M('C12', 'events.clear()', 'C12-D2', (CAT, "                        prev_id = catalog_id\n                        # add event to new event list\n                        if not empty:\n                            events = [temp_event]\n                        else:\n                            events = []\n                    else:", "                        prev_id = catalog_id\n                        # add event to new event list\n                        events.clear()\n                        if not empty:\n                            events.append(temp_event)\n                    else:"))
M('C12', 'range(num_empty + 1)', 'C12-D3', (CAT, 'for id in range(num_empty_catalogs):', 'for id in range(num_empty_catalogs + 1):'))
M('C12', 'gap id formula off by one', 'C12-D3', (CAT, 'catalog_id=catalog_id - num_empty_catalogs + id', 'catalog_id=catalog_id - num_empty_catalogs + id + 1'))
M('C12', 'num_empty without -1', 'C12-D3', (CAT, 'num_empty_catalogs = catalog_id - prev_id - 1', 'num_empty_catalogs = catalog_id - prev_id'))
M('C12', 'leading gap from 1', 'C12-D3', (CAT, '                            for id in range(catalog_id):\n                                yield cls(data=[], catalog_id=id, **kwargs)', '                            for id in range(1, catalog_id):\n                                yield cls(data=[], catalog_id=id, **kwargs)'))
M('C12', 'final flush dropped', 'C12-D2', (CAT, "                cat = cls(data=events, catalog_id=prev_id, **kwargs)\n                yield cat\n", "                cat = cls(data=events, catalog_id=prev_id, **kwargs)\n                if events:\n                    yield cat\n"))
M('C12', '>= in the d=1 test', 'C12-D', (CAT, '                    elif catalog_id == prev_id + 1:', '                    elif catalog_id >= prev_id + 2:'))
M('C12', 'decreasing ids accepted', 'C12-D1', (CAT, "                    else:\n                        raise ValueError(\n                            \"catalog_id should be monotonically increasing and events should be ordered by catalog_id\")", "                    else:\n                        events.append(temp_event)"))
M('C12', 'lat/lon swapped in tuple', 'C12-D4', (CAT, 'temp_event = (event_id, origin_time, lat, lon, depth, magnitude)', 'temp_event = (event_id, origin_time, lon, lat, depth, magnitude)'))
M('C12', 'depth from mag column', 'C12-D4', (CAT, 'depth = read_float(line[4])\n            catalog_id = int(line[5])', 'depth = read_float(line[2])\n            catalog_id = int(line[5])'))
M('C12', 'placeholder by falsy time', 'C12-D4', (CAT, "                    empty = False\n                    # OK if event_id is empty\n                    if all([val in (None, '') for val in temp_event[1:]]):\n                        empty = True", "                    empty = not temp_event[1]"))
M('C12', 'ms by float truncation', 'C12-D4', (CAT, "                try:\n                    origin_time = strptime_to_utc_epoch(line[3], format='%Y-%m-%dT%H:%M:%S.%f')\n                except ValueError:\n                    origin_time = strptime_to_utc_epoch(line[3], format='%Y-%m-%dT%H:%M:%S')", "                minutes, _, seconds = origin_time.rpartition(':')\n                origin_time = strptime_to_utc_epoch(minutes, format='%Y-%m-%dT%H:%M') + int(float(seconds) * 1000)"))
M('C12', 'header skipped always', 'C12-D4', (CAT, "                    if prev_id is None:\n                        if is_header_line(line):\n                            continue", "                    if is_header_line(line):\n                        continue"))
M('C12', 'csv dispatch to ucerf3', 'C12-D5', (INI, "               'csv': catalogs.CSEPCatalog.load_ascii_catalogs}", "               'csv': catalogs.UCERF3Catalog.load_catalogs}"))
M('C12', 'prev_id not advanced', 'C12-D2', (CAT, "                            events = []\n                        prev_id = catalog_id\n                    # this implies", "                            events = []\n                    # this implies"))
E('C12', 'gap ids from prev_id', (CAT, 'catalog_id=catalog_id - num_empty_catalogs + id', 'catalog_id=prev_id + 1 + id'))
E('C12', 'range over ids', (CAT, "                        for id in range(num_empty_catalogs):\n                            yield cls(data=[], catalog_id=catalog_id - num_empty_catalogs + id, **kwargs)", "                        for id in range(prev_id + 1, catalog_id):\n                            yield cls(data=[], catalog_id=id, **kwargs)"))
E('C12', 'd=2 test as >=', (CAT, '                    elif catalog_id > prev_id + 1:', '                    elif catalog_id >= prev_id + 2:'))

# ------------------------------------------------------------------------------------------------ C18
M('C18', 'factory key dropped', 'C18-D1', (INI, "        'CalibrationTestResult': CalibrationTestResult\n", ""), (INI, "        'CatalogPseudoLikelihoodTestResult': CatalogPseudolikelihoodTestResult,\n", "        'CatalogPseudoLikelihoodTestResult': CatalogPseudolikelihoodTestResult\n"))
M('C18', 'factory key misspelt', 'C18-D1', (INI, "        'CatalogPseudolikelihoodTestResult': CatalogPseudolikelihoodTestResult,\n", ""))
M('C18', 'factory maps to wrong class', 'C18-D1', (INI, "'CatalogSpatialTestResult': CatalogSpatialTestResult,", "'CatalogSpatialTestResult': CatalogMagnitudeTestResult,"))
M('C18', 'min_mw not written', 'C18-D2', (MOD, "            'min_mw': self.min_mw,\n", ""))
M('C18', 'status read from name', 'C18-D2', (MOD, "            status=adict['status'],", "            status=adict['name'],"))
M('C18', 'quantile written from statistic', 'C18-D2', (MOD, "            'quantile': self.quantile,", "            'quantile': self.observed_statistic,"))
M('C18', 'subclass drops kwargs', 'C18-D2', (MOD, "class CatalogSpatialTestResult(EvaluationResult):\n\n    def __init__(self, **kwargs):\n        super().__init__(**kwargs)", "class CatalogSpatialTestResult(EvaluationResult):\n\n    def __init__(self, **kwargs):\n        super().__init__()"))
M('C18', 'type not class name', 'C18-D2', (MOD, "        self.named_type = self.__class__.__name__", "        self.named_type = 'EvaluationResult'"))
M('C18', 'region lat/lon swapped in to_dict', 'C18-D5', (REG, "            'polygons': [{'lat': float(poly.origin[1]), 'lon': float(poly.origin[0])} for poly in self.polygons],\n            'class_id': self.__class__.__name__", "            'polygons': [{'lat': float(poly.origin[0]), 'lon': float(poly.origin[1])} for poly in self.polygons],\n            'class_id': self.__class__.__name__"))
M('C18', 'region from_dict unique', 'C18-D5', (REG, "        out = cls.from_origins(origins, dh=dh, magnitudes=magnitudes, name=name)", "        origins = numpy.unique(origins, axis=0)\n        out = cls.from_origins(origins, dh=dh, magnitudes=magnitudes, name=name)"))
M('C18', 'region dh not passed', 'C18-D5', (REG, "        out = cls.from_origins(origins, dh=dh, magnitudes=magnitudes, name=name)", "        out = cls.from_origins(origins, magnitudes=magnitudes, name=name)"))
M('C18', 'save without default=str target', 'C18-D4', (REP, "    repo.save(object.to_dict())", "    repo.save(object.__dict__)"))
E('C18', 'factory alias added', (INI, "        'CalibrationTestResult': CalibrationTestResult\n", "        'CalibrationTestResult': CalibrationTestResult,\n        'CalibrationResult': CalibrationTestResult\n"))
E('C18', 'reorder dict entries', (MOD, "            'name': self.name,\n            'sim_name': self.sim_name,", "            'sim_name': self.sim_name,\n            'name': self.name,"))

# ------------------------------------------------------------------------------------------------ C19
M('C19', 'zmap dropped from mapping', 'C19-D1', (INI, "        'zmap': {\n            'class': catalogs.CSEPCatalog,\n            'loader': readers.zmap_ascii\n        },\n", ""))
M('C19', 'jma lat/lon swapped', 'C19-D2', (RDR, "            lon = float(line[1])\n            lat = float(line[2])\n            depth = float(line[3])", "            lon = float(line[2])\n            lat = float(line[1])\n            depth = float(line[3])"))
M('C19', 'csep depth from mag column', 'C19-D2', (RDR, "            depth = float(line[4])\n            try:\n                catalog_id", "            depth = float(line[2])\n            try:\n                catalog_id"))
M('C19', 'zmap tuple lat/lon swapped', 'C19-D2', (RDR, "            line[ColumnIndex.Latitude],\n            line[ColumnIndex.Longitude],", "            line[ColumnIndex.Longitude],\n            line[ColumnIndex.Latitude],"))
M('C19', 'zmap enum values swapped', 'C19-D2', (RDR, "        Magnitude = 5\n        Depth = 6", "        Magnitude = 6\n        Depth = 5"))
M('C19', 'Enum for IntEnum', 'C19-D3', (RDR, "class ColumnIndex(enum.IntEnum):", "class ColumnIndex(enum.Enum):"))
M('C19', 'zmap int() dropped', 'C19-D3', (RDR, "            int(line[ColumnIndex.Second])\n", "            line[ColumnIndex.Second]\n"))
M('C19', 'horus carry after datetime', 'C19-D4', (RDR, "        if line['second'] >= 60.:\n            line['second'] -= 60.\n            dt += datetime.timedelta(minutes=1)\n", ""))
M('C19', 'ndk minute replace', 'C19-D4', (RDR, "        if add_minute:\n            dt += datetime.timedelta(minutes=1)", "        if add_minute:\n            dt = dt.replace(minute=dt.minute + 1)"))
M('C19', 'jma relabel offset', 'C19-D4', (RDR, "    parse_date_string = lambda x: round(\n        1000. * datetime.datetime.strptime(x, _timestamp_template).timestamp())", "    parse_date_string = lambda x: datetime_to_utc_epoch(\n        datetime.datetime.strptime(x, _timestamp_template).replace(tzinfo=None))"))
M('C19', 'zmap ndmin dropped', 'C19-D5', (RDR, "zmap_catalog_data = numpy.loadtxt(fname, delimiter=delimiter, ndmin=2)", "zmap_catalog_data = numpy.loadtxt(fname, delimiter=delimiter)"))
M('C19', 'horus atleast_1d dropped', 'C19-D5', (RDR, "    data = numpy.atleast_1d(data)\n", ""))
M('C19', 'ndk lat slice shifted', 'C19-D2', (RDR, 'rec["hypo_lat"] = float(line1[27:33])', 'rec["hypo_lat"] = float(line1[28:33])'))
M('C19', 'horus skips M<1', 'C19-D2', (RDR, "                       float(line[\"Mw\"])\n                       )\n        out.append(event_tuple)", "                       float(line[\"Mw\"])\n                       )\n        if line['Mw'] >= 1.0:\n            out.append(event_tuple)"))
E('C19', 'rename locals (jma)', (RDR, "            lon = float(line[1])\n            lat = float(line[2])\n            depth = float(line[3])\n            magnitude = float(line[4])\n            events.append((id, origin_time, lat, lon, depth, magnitude))", "            x = float(line[1])\n            y = float(line[2])\n            z = float(line[3])\n            m = float(line[4])\n            events.append((id, origin_time, y, x, z, m))"))

# ------------------------------------------------------------------------------------------------ C14
M('C14', 'header permuted', 'C14-D1', (CAT, "header = ['lon', 'lat', 'mag', 'time_string', 'depth', 'catalog_id', 'event_id']", "header = ['lat', 'lon', 'mag', 'time_string', 'depth', 'catalog_id', 'event_id']"))
M('C14', 'lat from row[0]', 'C14-D1', (CAT, "                adict = {'lon': row[0],\n                         'lat': row[1],", "                adict = {'lon': row[1],\n                         'lat': row[0],"))
M('C14', 'zip order changed', 'C14-D1', (CAT, "            row_iter = zip(self.get_longitudes(),\n                           self.get_latitudes(),", "            row_iter = zip(self.get_latitudes(),\n                           self.get_longitudes(),"))
M('C14', 'T replacement dropped', 'C14-D2', (CAT, "'time_string': str(epoch_time_to_utc_datetime(row[3]).replace(tzinfo=None)).replace(' ', 'T'),", "'time_string': str(epoch_time_to_utc_datetime(row[3]).replace(tzinfo=None)),"))
M('C14', 'reader drops fraction-free format', 'C14-D2', (RDR, "        try:\n            origin_time = strptime_to_utc_epoch(dt_string,\n                                                format='%Y-%m-%dT%H:%M:%S')\n            return origin_time\n        except:\n            pass\n", ""))
M('C14', 'catalog_id init dropped', 'G-UNBOUND', (RDR, "        events = []\n        catalog_id = None\n        for i, line in enumerate(catalog_reader):", "        events = []\n        for i, line in enumerate(catalog_reader):"))
M('C14', 'IndexError handler dropped', 'C14-D6', (CAT, "        except (KeyError, IndexError):", "        except KeyError:"))
M('C14', 'emptiness guard dropped', 'C14-D6', (CAT, "        if catalog_length == 0:\n            return catalog\n", ""))
M('C14', 'region lat from origin[0]', 'C18-D5', (REG, "            'polygons': [{'lat': float(poly.origin[1]), 'lon': float(poly.origin[0])} for poly in self.polygons],\n            'class_id': self.__class__.__name__", "            'polygons': [{'lat': float(poly.origin[0]), 'lon': float(poly.origin[1])} for poly in self.polygons],\n            'class_id': self.__class__.__name__"))
M('C14', 'reader skipinitialspace', 'C14-D1', (RDR, "    with open(fname, 'r', newline='') as input_file:\n        catalog_reader = csv.reader(input_file, delimiter=',')", "    with open(fname, 'r', newline='') as input_file:\n        catalog_reader = csv.reader(input_file, delimiter=',', skipinitialspace=True)"))
M('C14', 'truncating epoch', 'C15-D1', (TIM, "    return (dt - epoch) // datetime.timedelta(milliseconds=1)", "    return int(1000.0 * (dt - epoch).total_seconds())"))
M('C14', 'dataframe loses catalog id', 'C14-D7', (CAT, "        df['catalog_id'] = self.catalog_id\n", ""))
E('C14', 'row dict via zip(header,row)', (CAT, "'depth': row[4],\n                         'catalog_id': row[5],", "'depth': row[4], 'catalog_id': row[5],"))

# ------------------------------------------------------------------------------------------------ C01
M('C01', 'mask test dropped in get_index_of', 'C01-D4', (REG, "        if numpy.any(self.bbox_mask[idy, idx] == 1):\n            raise ValueError(\"at least one lon and lat pair contain values that are outside of the valid region.\")\n        return self.idx_map", "        return self.idx_map"))
M('C01', '-1 test dropped in get_index_of', 'C01-D3', (REG, "        if numpy.any(idx == -1) or numpy.any(idy == -1):\n            raise ValueError(\"at least one lon and lat pair contain values that are outside of the valid region.\")\n        if numpy.any(self.bbox_mask", "        if numpy.any(self.bbox_mask"))
M('C01', 'get_masked sentinel overwrite dropped', 'C01-D3', (REG, "        mask[bad_idx] = True\n", ""))
M('C01', 'centroid -> origin', 'C01-D5', (REG, "        midpoints = numpy.array([poly.centroid() for poly in self.polygons])\n\n        # set up grid", "        midpoints = numpy.array([poly.origin for poly in self.polygons])\n\n        # set up grid"))
M('C01', 'poly_mask polarity', 'C01-D4', (REG, "                    if self.poly_mask[i] == 1:\n                        a[idy[i], idx[i], 0] = 0", "                    if self.poly_mask[i] == 0:\n                        a[idy[i], idx[i], 0] = 0"))
M('C01', 'lat binned against xs', 'C01-D1', (REG, "        idy = _bin_coordinates(lats, self.ys, self.dh)\n        if numpy.any(idx == -1)", "        idy = _bin_coordinates(lats, self.xs, self.dh)\n        if numpy.any(idx == -1)"))
M('C01', 'idx_map transposed', 'C01-D1', (REG, "        return self.idx_map[idy, idx].astype(numpy.int64)", "        return self.idx_map[idx, idy].astype(numpy.int64)"))
M('C01', 'layers swapped in init', 'C01-D1', (REG, "        self.bbox_mask = a[:,:,0]", "        self.bbox_mask = a[:,:,1]"), (REG, "        self.idx_map = a[:,:,1]", "        self.idx_map = a[:,:,0]"))
M('C01', 'un-snapped cleaner_range', 'C01-D6', (CALC, 'scale = max(10**num_decimals_bins, _snap_to_integer(1 / h))', 'scale = max(10**num_decimals_bins, 1 / h)'), (CALC, 'd = _snap_to_integer(scale * h)', 'd = scale * h'))
M('C01', 'filter_spatial bins itself', 'C01-D2', (CAT, "        mask = self.region.get_masked(self.get_longitudes(), self.get_latitudes())", "        mask = (bin1d_vec(self.get_longitudes(), self.region.xs) == -1) | (bin1d_vec(self.get_latitudes(), self.region.ys) == -1)"))
M('C01', 'get_cartesian polarity', 'C01-D4', (REG, "                if self.bbox_mask[i, j] == 0:\n                    idx = int(self.idx_map[i, j])", "                if self.bbox_mask[i, j] == 1:\n                    idx = int(self.idx_map[i, j])"))
M('C01', 'spatial_counts lat/lon order', 'C01-D2', (CAT, "        idx = self.region.get_index_of(self.get_longitudes(), self.get_latitudes())\n        numpy.add.at(event_counts, idx, 1)", "        idx = self.region.get_index_of(self.get_latitudes(), self.get_longitudes())\n        numpy.add.at(event_counts, idx, 1)"))
M('C01', 'single edge not closed', 'C01-D7', (REG, "        idx = _bin_coordinates(lons, self.xs, self.dh)\n        idy = _bin_coordinates(lats, self.ys, self.dh)\n        # handles", "        idx = bin1d_vec(lons, self.xs)\n        idy = bin1d_vec(lats, self.ys)\n        # handles"))
M('C01', 'bin spatial counts drops mask from bad', 'C01-D4', (REG, "    bad = (idx == -1) | (idy == -1) | (mask[idy,idx] == 1)\n    # this can be", "    bad = (idx == -1) | (idy == -1)\n    # this can be"))
E('C01', 'merged any tests', (REG, "        if numpy.any(idx == -1) or numpy.any(idy == -1):", "        if numpy.any((idx == -1) | (idy == -1)):"))
E('C01', 'mask != 0', (REG, "        if numpy.any(self.bbox_mask[idy, idx] == 1):", "        if numpy.any(self.bbox_mask[idy, idx] != 0):"))
E('C01', 'rename idx/idy', (REG, "        idx = _bin_coordinates(lons, self.xs, self.dh)\n        idy = _bin_coordinates(lats, self.ys, self.dh)\n        # handles the case where values are outside of the region\n        bad_idx = numpy.where((idx == -1) | (idy == -1))\n        mask = self.bbox_mask[idy, idx].astype(bool)", "        col = _bin_coordinates(lons, self.xs, self.dh)\n        row = _bin_coordinates(lats, self.ys, self.dh)\n        # handles the case where values are outside of the region\n        bad_idx = numpy.where((col == -1) | (row == -1))\n        mask = self.bbox_mask[row, col].astype(bool)"))

# ------------------------------------------------------------------------------------------------ C03
M('C03', 'magnitude_counts -1 into add.at', 'C03-D1', (CAT, "numpy.add.at(out, idx[idx != -1], 1)", "numpy.add.at(out, idx, 1)"))
M('C03', 'smc raise removed', 'C03-D', (CAT, "                if mag_idx[idx] == -1:\n                    raise ValueError(\"at least one magnitude value outside of the valid region.\")\n", ""))
M('C03', 'count = 1 instead of += 1', 'C03-D2', (CAT, "                event_counts[(spatial_idx[idx], mag_idx[idx])] += 1", "                event_counts[(spatial_idx[idx], mag_idx[idx])] = 1"))
M('C03', 'add.at -> fancy +=', 'C03-D2', (CAT, "        idx = self.region.get_index_of(self.get_longitudes(), self.get_latitudes())\n        numpy.add.at(event_counts, idx, 1)", "        idx = self.region.get_index_of(self.get_longitudes(), self.get_latitudes())\n        event_counts[idx] += 1"))
M('C03', 'flag map via add.at', 'C03-D2', (CAT, "        event_flag[idx] = 1", "        numpy.add.at(event_flag, idx, 1)"))
M('C03', 'pairing guard removed', 'C03-D3', (CAT, "            if numpy.shape(spatial_idx) != numpy.shape(mag_idx):\n                raise ValueError(\"at least one lon and lat pair contain values that are outside of the valid region.\")\n", ""))
M('C03', '(mag, cell) order', 'C03-D4', (CAT, "                event_counts[(spatial_idx[idx], mag_idx[idx])] += 1", "                event_counts[(mag_idx[idx], spatial_idx[idx])] += 1"))
M('C03', 'vectorised with all()', 'C03-D', (CAT, "            for idx in range(spatial_idx.shape[0]):\n                if mag_idx[idx] == -1:\n                    raise ValueError(\"at least one magnitude value outside of the valid region.\")\n                event_counts[(spatial_idx[idx], mag_idx[idx])] += 1", "            if numpy.all(mag_idx == -1):\n                raise ValueError(\"at least one magnitude value outside of the valid region.\")\n            numpy.add.at(event_counts, (spatial_idx, mag_idx), 1)"))
M('C03', 'add.at adds 2', 'C03-D2', (REG, "    numpy.add.at(event_counts, hash_idx, 1)\n    return event_counts", "    numpy.add.at(event_counts, hash_idx, 2)\n    return event_counts"))
E('C03', 'vectorised with any()', (CAT, "            for idx in range(spatial_idx.shape[0]):\n                if mag_idx[idx] == -1:\n                    raise ValueError(\"at least one magnitude value outside of the valid region.\")\n                event_counts[(spatial_idx[idx], mag_idx[idx])] += 1", "            if numpy.any(mag_idx == -1):\n                raise ValueError(\"at least one magnitude value outside of the valid region.\")\n            numpy.add.at(event_counts, (spatial_idx, mag_idx), 1)"))
E('C03', 'drop via >= 0', (CAT, "numpy.add.at(out, idx[idx != -1], 1)", "numpy.add.at(out, idx[idx >= 0], 1)"))

# ------------------------------------------------------------------------------------------------ C05
M('C05', 'penalty term dropped', 'C05-D1', (STA, "    return sum_log_target_event_rates - discrete_penalty_term - n_fore", "    return sum_log_target_event_rates - n_fore"))
M('C05', 'loggamma(w)', 'C05-D1', (STA, "scipy.special.loggamma(target_observations+1)", "scipy.special.loggamma(target_observations)"))
M('C05', 'n_fore sign', 'C05-D1', (STA, "    return sum_log_target_event_rates - discrete_penalty_term - n_fore", "    return sum_log_target_event_rates - discrete_penalty_term + n_fore"))
M('C05', 'scale inverted', 'C05-D', (POI, "        scale = n_obs / n_fore\n", "        scale = n_fore / n_obs\n"))
M('C05', 'M-test with spatial counts', 'C05-D2', (POI, "        gridded_forecast.magnitude_counts(), gridded_catalog_data,", "        gridded_forecast.spatial_counts(), gridded_catalog_data,"))
M('C05', 'S-test normalize False', 'C05-D2', (POI, "        use_observed_counts=True,\n        verbose=verbose,\n        normalize_likelihood=True)\n\n    # populate result data structure\n    result = EvaluationResult()\n    result.test_distribution = simulated_ll\n    result.name = 'Poisson S-Test'", "        use_observed_counts=True,\n        verbose=verbose,\n        normalize_likelihood=False)\n\n    # populate result data structure\n    result = EvaluationResult()\n    result.test_distribution = simulated_ll\n    result.name = 'Poisson S-Test'"))
M('C05', 'simulated with unscaled log-rates', 'C05-D4', (POI, "        sim_target_event_forecast = log_bin_expectations[\n                                        sim_target_idx] * sim_obs_nonzero", "        sim_target_event_forecast = numpy.log(forecast_data.ravel())[\n                                        sim_target_idx] * sim_obs_nonzero"))
M('C05', 'clip on rates', 'C05-D5', (POI, "    log_bin_expectations = numpy.log(forecast_data.ravel())\n", "    log_bin_expectations = numpy.log(numpy.clip(forecast_data.ravel(), 1e-300, None))\n"))
M('C05', 'log where=', 'C05-D5', (POI, "    log_bin_expectations = numpy.log(forecast_data.ravel())\n", "    log_bin_expectations = numpy.log(forecast_data.ravel(), out=numpy.zeros(forecast_data.size), where=forecast_data.ravel() > 0)\n"))
M('C05', 'observed uses sim index', 'C05-D1', (POI, "    target_event_forecast = log_bin_expectations[\n                                target_idx] * observed_data_nonzero", "    target_event_forecast = log_bin_expectations[\n                                :len(observed_data_nonzero)] * observed_data_nonzero"))
M('C05', 'expected count int(n_obs) always', 'C05-D3', (POI, "    expected_forecast_count = numpy.sum(forecast_data)\n    log_bin_expectations", "    expected_forecast_count = int(n_obs)\n    log_bin_expectations"))
M('C05', 'slots swapped', 'C05-D2', (POI, "    result.name = 'Poisson M-Test'\n    result.observed_statistic = obs_ll\n    result.quantile = qs", "    result.name = 'Poisson M-Test'\n    result.observed_statistic = qs\n    result.quantile = obs_ll"))
E('C05', 'terms reordered', (STA, "    return sum_log_target_event_rates - discrete_penalty_term - n_fore", "    return sum_log_target_event_rates - n_fore - discrete_penalty_term"))
E('C05', '.sum() method', (STA, "    sum_log_target_event_rates = numpy.sum(target_event_log_rates)", "    sum_log_target_event_rates = target_event_log_rates.sum()"))
E('C05', 'inline temporary', (POI, "    observed_data_nonzero = observed_data.ravel()[target_idx]\n    target_event_forecast = log_bin_expectations[\n                                target_idx] * observed_data_nonzero", "    observed_data_nonzero = observed_data.ravel()[target_idx]\n    target_event_forecast = log_bin_expectations[target_idx] * observed_data.ravel()[target_idx]"))

# ------------------------------------------------------------------------------------------------ C10
M('C10', 'empty-catalog return dropped (magnitude)', 'C10-D1', (CEV, "                                            obs_name=observed_catalog.name,\n                                            sim_name=forecast.name)\n\n        return result\n\n    # compute expected rates for forecast if needed\n    if forecast.expected_rates is None:\n        forecast.get_expected_rates(verbose=verbose)\n\n    # returns the average events", "                                            obs_name=observed_catalog.name,\n                                            sim_name=forecast.name)\n\n    # compute expected rates for forecast if needed\n    if forecast.expected_rates is None:\n        forecast.get_expected_rates(verbose=verbose)\n\n    # returns the average events"))
M('C10', 'not-valid status -> normal (magnitude empty)', 'C10-D1', (CEV, "                                            quantile=(None, None),\n                                            status='not-valid',\n                                            min_mw=forecast.min_magnitude,\n                                            obs_catalog_repr=str(observed_catalog),\n                                            obs_name=observed_catalog.name,\n                                            sim_name=forecast.name)\n\n        return result\n\n    # compute expected rates for forecast if needed\n    if forecast.expected_rates is None:\n        forecast.get_expected_rates(verbose=verbose)\n\n    # returns the average events", "                                            quantile=(None, None),\n                                            status='normal',\n                                            min_mw=forecast.min_magnitude,\n                                            obs_catalog_repr=str(observed_catalog),\n                                            obs_name=observed_catalog.name,\n                                            sim_name=forecast.name)\n\n        return result\n\n    # compute expected rates for forecast if needed\n    if forecast.expected_rates is None:\n        forecast.get_expected_rates(verbose=verbose)\n\n    # returns the average events"))
M('C10', 'PL returns result for empty', 'C10-D1', (CEV, "        print(f'Skipping pseudolikelihood test because no events in observed catalog.')\n        return None", "        print(f'Skipping pseudolikelihood test because no events in observed catalog.')"))
M('C10', 'undersampled message dropped (spatial)', 'C10-D2', (CEV, "        _, obs_lh_norm = _compute_likelihood(new_gridded_obs, new_ard, expected_cond_count, n_obs)\n        message = \"undersampled\"", "        _, obs_lh_norm = _compute_likelihood(new_gridded_obs, new_ard, expected_cond_count, n_obs)"))
M('C10', 'continue dropped', 'C10-D3', (CEV, "        n_events = numpy.sum(mag_counts)\n        if n_events == 0:\n            # print(\"Skipping to next because catalog contained zero events.\")\n            continue\n        scale = n_obs / n_events\n        catalog_histogram = mag_counts * scale\n        # compute magnitude test statistic for the catalog\n        test_distribution.append(\n            cumulative_square_diff(numpy.log10(catalog_histogram + 1), numpy.log10(scaled_union_histogram + 1))", "        n_events = numpy.sum(mag_counts)\n        scale = n_obs / n_events if n_events > 0 else 1.0\n        catalog_histogram = mag_counts * scale\n        # compute magnitude test statistic for the catalog\n        test_distribution.append(\n            cumulative_square_diff(numpy.log10(catalog_histogram + 1), numpy.log10(scaled_union_histogram + 1))"))
M('C10', 'n_events / n_obs', 'C10-D', (CEV, "        scale = n_obs / n_events\n        catalog_histogram = mag_counts * scale\n        # compute magnitude test statistic for the catalog\n        test_distribution.append(\n            cumulative_square_diff(numpy.log10(catalog_histogram + 1), numpy.log10(scaled_union_histogram + 1))", "        scale = n_events / n_obs\n        catalog_histogram = mag_counts * scale\n        # compute magnitude test statistic for the catalog\n        test_distribution.append(\n            cumulative_square_diff(numpy.log10(catalog_histogram + 1), numpy.log10(scaled_union_histogram + 1))"))
M('C10', '+1 outside log', 'C10-D4', (CEV, "    obs_d_statistic = cumulative_square_diff(numpy.log10(obs_histogram + 1), numpy.log10(scaled_union_histogram + 1))\n\n    # score evaluation\n    delta_1, delta_2 = get_quantiles(test_distribution, obs_d_statistic)\n\n    # prepare result\n    result = CatalogMagnitudeTestResult(test_distribution=test_distribution,\n                              name='M-Test',", "    obs_d_statistic = cumulative_square_diff(numpy.log10(obs_histogram) + 1, numpy.log10(scaled_union_histogram + 1))\n\n    # score evaluation\n    delta_1, delta_2 = get_quantiles(test_distribution, obs_d_statistic)\n\n    # prepare result\n    result = CatalogMagnitudeTestResult(test_distribution=test_distribution,\n                              name='M-Test',"))
M('C10', 'get_quantiles(obs, dist)', 'C10-D4', (CEV, "        delta_1, delta_2 = get_quantiles(test_distribution_spatial_1d, obs_lh_norm)", "        delta_1, delta_2 = get_quantiles(obs_lh_norm, test_distribution_spatial_1d)"))
M('C10', 'safe log wrapper', 'C10-D2', (CALC, "def _compute_likelihood(gridded_data, apprx_rate_density, expected_cond_count, n_obs):", "def _safe_log(values):\n    values = numpy.asarray(values, dtype=numpy.float64)\n    return numpy.log(values, out=numpy.zeros_like(values), where=values > 0)\n\ndef _compute_likelihood(gridded_data, apprx_rate_density, expected_cond_count, n_obs):"), (CALC, "likelihood = numpy.sum(gridded_data[idx] * numpy.log(apprx_rate_density[idx])) - expected_cond_count", "likelihood = numpy.sum(gridded_data[idx] * _safe_log(apprx_rate_density)[idx]) - expected_cond_count"))
M('C10', 'norm by n_obs', 'C10-D4', (CALC, "numpy.log(norm_apprx_rate_density[idx])) / n_events", "numpy.log(norm_apprx_rate_density[idx])) / n_obs"))
M('C10', 'rate map not normalised', 'C10-D4', (CALC, "norm_apprx_rate_density = apprx_rate_density / numpy.sum(apprx_rate_density)", "norm_apprx_rate_density = apprx_rate_density"))
M('C10', 'csd abs', 'C10-D4', (STA, "    return numpy.sum((cdf2 - cdf1)**2)", "    return numpy.sum(numpy.abs(cdf2 - cdf1))"))
M('C10', 'MLL catalog +2', 'C10-D4', (STA, "    catalog_counts_mod = catalog_counts + 1", "    catalog_counts_mod = catalog_counts + 2"))
M('C10', 'MLL ratio inverted', 'C10-D4', (STA, "    events_ratio = N_u / N_j", "    events_ratio = N_j / N_u"))
M('C10', 'calibration keeps not-valid', 'C10-D5', (CEV, "        if result.status == 'not-valid':\n            print(f'evaluation not valid for {result.name}. skipping in calibration test.')\n        else:\n            quantiles.append(result.quantile[idx])", "        quantiles.append(result.quantile[idx])"))
M('C10', 'PL result class', 'C10-D5', (CEV, "    result = CatalogPseudolikelihoodTestResult(", "    result = CatalogSpatialTestResult("))
M('C10', 'nan filter dropped', 'C10-D3', (CEV, "    if numpy.isnan(numpy.sum(test_distribution_spatial_1d)):\n        test_distribution_spatial_1d = test_distribution_spatial_1d[~numpy.isnan(test_distribution_spatial_1d)]\n", ""))
M('C10', 'spatial uses pseudo-likelihood component', 'C10-D4', (CEV, "        _, lh_norm = _compute_likelihood(gridded_cat, forecast_mean_spatial_rates, expected_cond_count, n_obs)", "        lh_norm, _ = _compute_likelihood(gridded_cat, forecast_mean_spatial_rates, expected_cond_count, n_obs)"))
E('C10', 'square for **2', (STA, "    return numpy.sum((cdf2 - cdf1)**2)", "    return numpy.sum(numpy.square(cdf1 - cdf2))"))
E('C10', 'MLL inline temporaries', (STA, "    N_u = numpy.sum(union_catalog_counts)\n    N_j = numpy.sum(catalog_counts)\n    events_ratio = N_u / N_j", "    events_ratio = numpy.sum(union_catalog_counts) / numpy.sum(catalog_counts)"))

# ------------------------------------------------------------------------------------------------ C17
M('C17', '<= east in lookup', 'C17-D1', (REG, "numpy.logical_and(lon < self.bounds[:, 2], lat < self.bounds[:, 3]))", "numpy.logical_and(lon <= self.bounds[:, 2], lat < self.bounds[:, 3]))"))
M('C17', '> south in lookup', 'C17-D1', (REG, "loc = numpy.logical_and(numpy.logical_and(lon >= self.bounds[:, 0], lat >= self.bounds[:, 1]),", "loc = numpy.logical_and(numpy.logical_and(lon >= self.bounds[:, 0], lat > self.bounds[:, 1]),"))
M('C17', '<= north in tile count', 'C17-D1', (REG, "numpy.logical_and(lon < boundary.east, lat < boundary.north))", "numpy.logical_and(lon < boundary.east, lat <= boundary.north))"))
M('C17', 'lat against west', 'C17-D1', (REG, "loc = numpy.logical_and(numpy.logical_and(lon >= self.bounds[:, 0], lat >= self.bounds[:, 1]),", "loc = numpy.logical_and(numpy.logical_and(lat >= self.bounds[:, 0], lon >= self.bounds[:, 1]),"))
M('C17', 'child 3 -> 2', 'C17-D2', (REG, "        _create_tile(quadk + '3', threshold, zoom, lon, lat, qk, num)", "        _create_tile(quadk + '2', threshold, zoom, lon, lat, qk, num)"))
M('C17', 'root 0 twice', 'C17-D2', (REG, "        _create_tile_fix_len('1', zoom, qk)", "        _create_tile_fix_len('0', zoom, qk)"))
M('C17', '>= threshold', 'C17-D3', (REG, "    if num_eqs > threshold and len(quadk) < zoom:", "    if num_eqs >= threshold and len(quadk) < zoom:"))
M('C17', '<= zoom', 'C17-D3', (REG, "    if num_eqs > threshold and len(quadk) < zoom:", "    if num_eqs > threshold and len(quadk) <= zoom:"))
M('C17', 'or instead of and', 'C17-D3', (REG, "    if num_eqs > threshold and len(quadk) < zoom:", "    if num_eqs > threshold or len(quadk) < zoom:"))
M('C17', 'fix_len <=', 'C17-D3', (REG, "    if len(quadk) < zoom:\n        #        print('inside If", "    if len(quadk) <= zoom:\n        #        print('inside If"))
M('C17', 'east from another key', 'C17-D4', (REG, "        top_right_lon.append(mercantile.bounds(mercantile.quadkey_to_tile(quadk[i])).east)", "        top_right_lon.append(mercantile.bounds(mercantile.quadkey_to_tile(quadk[0])).east)"))
M('C17', 'south/north swapped', 'C17-D4', (REG, "        origin_lat.append(mercantile.bounds(mercantile.quadkey_to_tile(quadk[i])).south)", "        origin_lat.append(mercantile.bounds(mercantile.quadkey_to_tile(quadk[i])).north)"))
M('C17', 'stateful shortcut', 'C17-D4', (REG, "        loc = numpy.logical_and(numpy.logical_and(lon >= self.bounds[:, 0], lat >= self.bounds[:, 1]),", "        if getattr(self, '_last', None) is not None and self.polygons[self._last].contains((lon, lat))[0]:\n            return self._last\n        loc = numpy.logical_and(numpy.logical_and(lon >= self.bounds[:, 0], lat >= self.bounds[:, 1]),"))
M('C17', 'bbox roles', 'C17-D4', (REG, "        return (min(self.bounds[:, 0]), max(self.bounds[:, 2]), min(self.bounds[:, 1]), max(self.bounds[:, 3]))", "        return (min(self.bounds[:, 0]), max(self.bounds[:, 1]), min(self.bounds[:, 2]), max(self.bounds[:, 3]))"))
M('C17', 'leaf count dropped', 'C17-D3', (REG, "        qk.append(quadk)\n        #            num = numpy.append(num, num_eqs)\n        num.append(num_eqs)", "        qk.append(quadk)\n        #            num = numpy.append(num, num_eqs)"))
E('C17', 'threshold + 1 form', (REG, "    if num_eqs > threshold and len(quadk) < zoom:", "    if num_eqs >= threshold + 1 and len(quadk) < zoom:"))
E('C17', 'count_nonzero', (REG, "    num_eqs = numpy.size(lat[eqs])", "    num_eqs = numpy.count_nonzero(eqs)"))
E('C17', 'ampersand conjunction', (REG, "        loc = numpy.logical_and(numpy.logical_and(lon >= self.bounds[:, 0], lat >= self.bounds[:, 1]),\n                                    numpy.logical_and(lon < self.bounds[:, 2], lat < self.bounds[:, 3]))", "        loc = (lon >= self.bounds[:, 0]) & (lat >= self.bounds[:, 1]) & (lon < self.bounds[:, 2]) & (lat < self.bounds[:, 3])"))

# ------------------------------------------------------------------------------------------------ C20
M('C20', 'first-wins store in spatial_counts', 'C03-D2', (CAT, "        idx = self.region.get_index_of(self.get_longitudes(), self.get_latitudes())\n        numpy.add.at(event_counts, idx, 1)", "        idx = self.region.get_index_of(self.get_longitudes(), self.get_latitudes())\n        event_counts[idx] = event_counts[idx] + 1"))
M('C20', 'first event rate in T kernel', 'C20-D2', (POI, "    information_gain = (numpy.sum(X1 - X2) - (N1 - N2)) / N\n\n    # Compute variance of (X1-X2) using Equation (18)  of Rhoades et al. 2011\n    first_term = (numpy.sum(numpy.power((X1 - X2), 2))) / (N - 1)", "    information_gain = (numpy.sum(X1 - X2) - (N1 - N2)) / N + 0.0 * X1[0]\n\n    # Compute variance of (X1-X2) using Equation (18)  of Rhoades et al. 2011\n    first_term = (numpy.sum(numpy.power((X1 - X2), 2))) / (N - 1)"))
M('C20', 'cumsum on per-event rates', 'C20-D2', (POI, "    r_plus = numpy.sum((d > 0) * r, axis=0)", "    r_plus = numpy.cumsum((d > 0) * r)[-1]"))
M('C20', 'ordinal ranks', 'C20-D2', (POI, "r = scipy.stats.rankdata(abs(d))", "r = scipy.stats.rankdata(abs(d), method='ordinal')"))
M('C20', 'polygons sorted, rates not', 'C11-D2', (FOR, '        unique_poly = all_polys[sorted_idx]', '        unique_poly = numpy.unique(all_polys, axis=0)'))
M('C20', 'distribution used positionally', 'C20-D2', (CEV, "    obs_count = observed_catalog.event_count\n    delta_1, delta_2 = get_quantiles(event_counts, obs_count)", "    obs_count = observed_catalog.event_count\n    event_counts[0] = obs_count\n    delta_1, delta_2 = get_quantiles(event_counts, obs_count)"))
M('C20', 'test reads raw events', 'C20-D4', (POI, "    gridded_catalog_data = observed_catalog.spatial_counts()\n\n    # simply call likelihood test on catalog data and forecast\n    qs, obs_ll, simulated_ll = _poisson_likelihood_test(\n        gridded_forecast.spatial_counts(), gridded_catalog_data,", "    gridded_catalog_data = observed_catalog.spatial_counts()\n    if observed_catalog.get_magnitudes()[0] > 9:\n        seed = 1\n\n    # simply call likelihood test on catalog data and forecast\n    qs, obs_ll, simulated_ll = _poisson_likelihood_test(\n        gridded_forecast.spatial_counts(), gridded_catalog_data,"))
M('C20', 'idx_map by reversed position', 'C20-D3', (REG, "            a[idy[i], idx[i], 1] = int(i)", "            a[idy[i], idx[i], 1] = int(len(self.polygons) - 1 - i)"))
E('C20', 'fsum for sum', (POI, "    r_minus = numpy.sum((d < 0) * r, axis=0)", "    r_minus = ((d < 0) * r).sum()"))
E('C20', 'explicit average ranks', (POI, "r = scipy.stats.rankdata(abs(d))", "r = scipy.stats.rankdata(abs(d), method='average')"))
M('C07', 'epsilon below float spacing', 'C07-D2', (BIN, "    epsilon = 1e-6\n\n    # stores the actual result of the number test\n    delta1, delta2 = _nbd_number_test_ndarray", "    epsilon = 1e-12\n\n    # stores the actual result of the number test\n    delta1, delta2 = _nbd_number_test_ndarray"))


# ------------------------------------------------------------------------------------------------ rules added after the seeded rounds
NDK_ITER = ('        prev_line = -1\n        while True:\n            next_line = data.find("\\n", prev_line + 1)\n            if next_line < 0:\n'
            '                break\n            yield data[prev_line + 1: next_line]\n            prev_line = next_line\n'
            '        if len(data) > prev_line + 1:\n            yield data[prev_line + 1:]')
WIN_BRANCH = ('dt = datetime.datetime(1970, 1, 1, tzinfo=datetime.timezone.utc) + datetime.timedelta(\n'
              '                                    milliseconds=float(epoch_time_milli)\n'
              '                                    )')
M('C11', 'quadtree cells sorted, rates in file order', 'C11-D5.qorder', (RDR, 'unique_qk = all_qk[sorted_idx]', 'unique_qk = numpy.sort(all_qk[sorted_idx])'))
M('C11', 'quadtree rates reshaped magnitude-major', 'C11-D5.qreshape', (RDR, 'rates = data[:, -1].reshape(n_poly, n_mag_bins)', 'rates = data[:, -1].reshape(n_mag_bins, n_poly).T'))
M('C11', 'quadtree rate column shifted', 'C11-D5.qreshape', (RDR, 'rates = data[:, -1].reshape(n_poly, n_mag_bins)', 'rates = data[:, -2].reshape(n_poly, n_mag_bins)'))
M('C11', 'from_quadkeys sorts its cells', 'C11-D5.qkeep', (REG, '        bounds = quadtree_grid_bounds(numpy.array(quadk))\n\n        region = QuadtreeGrid2D(', '        quadk = sorted(quadk)\n        bounds = quadtree_grid_bounds(numpy.array(quadk))\n\n        region = QuadtreeGrid2D('))
E('C11', 'n_poly from the quadkey array', (RDR, 'n_poly = len(region.quadkeys)\n    # reshape rates into correct 2d format', 'n_poly = len(unique_qk)\n    # reshape rates into correct 2d format'))
M('C20', 'quadtree cells sorted, rates in file order', 'C11-D5.qorder', (RDR, 'unique_qk = all_qk[sorted_idx]', 'unique_qk = numpy.sort(all_qk[sorted_idx])'))

M('C13', "N-test filters the forecast's catalogs in place", 'C13-D10', (CEV, '        event_counts.append(catalog.event_count)', "        event_counts.append(catalog.filter('magnitude >= 0').event_count)"))
M('C13', 'S/PL-test rescale the cached expected rates', 'C13-D10', (CEV, '    expected_cond_count = forecast.expected_rates.sum()\n', '    expected_cond_count = forecast.expected_rates.scale(1.0).sum()\n', 2))
M('C13', 'evaluation rebinds the region of a forecast catalog', 'C13-D10', (CEV, '        event_counts.append(catalog.event_count)', '        catalog.region = forecast.region\n        event_counts.append(catalog.event_count)'))
E('C13', 'N-test filters a copy', (CEV, '        event_counts.append(catalog.event_count)', "        event_counts.append(catalog.filter('magnitude >= -100', in_place=False).event_count)"))

M('C14', 'from_dataframe sorts the rows', 'C14-D7.roworder', (CAT, 'df[col_list].to_records(index=False)', "df[col_list].sort_values('origin_time').to_records(index=False)"))
M('C14', 'to_dataframe drops duplicate rows', 'C14-D7.roworder', (CAT, "        df['counts'] = 1\n", "        df = df.drop_duplicates()\n        df['counts'] = 1\n"))
E('C14', 'from_dataframe copies the frame', (CAT, 'df[col_list].to_records(index=False)', 'df[col_list].copy().to_records(index=False)'))
M('C14', 'optional magnitude column: handler narrowed again', 'C14-D6.optional', (CAT, '            except (AttributeError, CSEPCatalogException):\n                pass', '            except AttributeError:\n                pass'))
M('C14', 'get_mag_idx hands None to the kernel', 'C14-D6.optional', (CAT, '        if mag_bins is None:\n            raise CSEPCatalogException("Cannot return magnitude index without self.region.magnitudes")\n        return bin1d_vec', '        return bin1d_vec'))
E('C14', 'optional magnitude column: broad handler', (CAT, '            except (AttributeError, CSEPCatalogException):\n                pass', '            except Exception:\n                pass'))
E('C14', 'optional magnitude column: handler order', (CAT, '            except (AttributeError, CSEPCatalogException):\n                pass', '            except (CSEPCatalogException, AttributeError):\n                pass'))

M('C15', 'windows branch truncates toward zero', 'C15-D1.branch', (TIM, 'milliseconds=float(epoch_time_milli)', 'seconds=int(epoch_time), milliseconds=int(epoch_time_milli % 1000)'))
M('C15', 'windows branch naive epoch', 'C15-D1.branch', (TIM, 'dt = datetime.datetime(1970, 1, 1, tzinfo=datetime.timezone.utc) + datetime.timedelta(', 'dt = datetime.datetime(1970, 1, 1) + datetime.timedelta('))
E('C15', 'windows branch operands swapped', (TIM, WIN_BRANCH, 'dt = datetime.timedelta(milliseconds=float(epoch_time_milli)) + datetime.datetime(1970, 1, 1, tzinfo=datetime.timezone.utc)'))
M('C14', 'windows branch truncates toward zero', 'C15-D1.branch', (TIM, 'milliseconds=float(epoch_time_milli)', 'seconds=int(epoch_time), milliseconds=int(epoch_time_milli % 1000)'))

M('C16', 'mask with a tolerance', 'C16-D1.maskexact', (BIN, 'numpy.ma.masked_where(forecast_data <= 0.0, forecast_data)', 'numpy.ma.masked_where(forecast_data <= 1e-12, forecast_data)'))
M('C16', 'brier mask is approximate', 'C16-D1.maskexact', (BRI, 'numpy.ma.masked_where(forecast_data <= 0.0, forecast_data)', 'numpy.ma.masked_values(forecast_data, 0.0)'))
M('C16', 'masked bins filled with one', 'C16-D1.filled', (BIN, 'forecast_data.filled(0.0).ravel()', 'forecast_data.filled(1.0).ravel()'))
E('C16', 'mask against integer zero', (BIN, 'numpy.ma.masked_where(forecast_data <= 0.0, forecast_data)', 'numpy.ma.masked_where(forecast_data <= 0, forecast_data)'))
E('C16', 'masked_less_equal', (BRI, 'numpy.ma.masked_where(forecast_data <= 0.0, forecast_data)', 'numpy.ma.masked_less_equal(forecast_data, 0.0)'))

M('C17', 'refinement on rounded longitudes', 'C17-D3.coords', (REG, '        lon = catalog.get_longitudes()\n        lat = catalog.get_latitudes()\n\n        qk = []', '        lon = numpy.round(catalog.get_longitudes(), 6)\n        lat = catalog.get_latitudes()\n\n        qk = []'))
M('C17', 'refinement with lat and lon exchanged', 'C17-D3.coords', (REG, "        _create_tile('0', threshold, zoom, lon, lat, qk, num)", "        _create_tile('0', threshold, zoom, lat, lon, qk, num)"))

M('C18', 'default handler back to str', 'C18-D4.numbers', (REP, 'default=_json_default)', 'default=str)'))
M('C18', 'default handler stringifies numbers', 'C18-D4.numbers', (REP, '        return obj.tolist()\n    return str(obj)', '        return str(obj.tolist())\n    return str(obj)'))
E('C18', 'default handler with item()', (REP, '    if isinstance(obj, (numpy.generic, numpy.ndarray)):\n        return obj.tolist()\n', '    if isinstance(obj, numpy.generic):\n        return obj.item()\n    if isinstance(obj, numpy.ndarray):\n        return obj.tolist()\n'))

M('C19', 'ndk remainder not yielded', 'C19-D6', (RDR, '        if len(data) > prev_line + 1:\n            yield data[prev_line + 1:]\n', ''))
M('C19', 'ndk split drops the last line', 'C19-D6', (RDR, NDK_ITER, '        return iter(data.split("\\n")[:-1])'))
E('C19', 'ndk split with guarded trailing field', (RDR, NDK_ITER, '        return iter(data.split("\\n")[:-1] if data.endswith("\\n") else data.split("\\n"))'))
M('C19', 'jma depth carried across records', 'C19-D2.independent', (RDR, "            depth = float(line[3])\n            magnitude = float(line[4])\n            events.append((id, origin_time, lat, lon, depth, magnitude))", "            depth = float(line[3]) if line[3] else depth\n            magnitude = float(line[4])\n            events.append((id, origin_time, lat, lon, depth, magnitude))"))


# ------------------------------------------------------------------------------------------------ rules added after round 4
TOLV = '        tol = numpy.abs(v) * numpy.finfo(v.dtype).eps\n'
for _p in ('C02', 'C01'):
    M(_p, 'tolerance scaled below one eps', 'C02-D2.tol', (CALC, TOLV, '        tol = 0.9 * numpy.abs(v) * numpy.finfo(v.dtype).eps\n'))
    M(_p, 'spacing allowance from the spacing', 'C02-D2.den', (CALC, '    h_tol = a0_tol  # must be based on *involved* numbers', '    h_tol = _get_tolerance(numpy.asarray(h))'))
E('C02', 'tolerance doubled', (CALC, TOLV, '        tol = 2 * numpy.abs(v) * numpy.finfo(v.dtype).eps\n'))
E('C02', 'spacing allowance recomputed from the first edge', (CALC, '    h_tol = a0_tol  # must be based on *involved* numbers', '    h_tol = _get_tolerance(bins[0])'))
M('C02', 'reciprocal step truncated with int()', 'C02-D5.scale', (CALC, '_snap_to_integer(1 / h))', 'int(1 / h))'))
for _p in ('C02', 'C11', 'C13'):
    M(_p, 'magnitude_counts with a fixed default tolerance', 'C02-D2.toldefault', (CAT, 'def magnitude_counts(self, mag_bins=None, tol=None, retbins=False):', 'def magnitude_counts(self, mag_bins=None, tol=1e-6, retbins=False):'))
    M(_p, 'get_mag_idx fixes a tolerance', 'C02-D2.tolarg', (CAT, 'return bin1d_vec(self.get_magnitudes(), mag_bins, right_continuous=True)', 'return bin1d_vec(self.get_magnitudes(), mag_bins, tol=1e-7, right_continuous=True)'))
    E(_p, 'get_mag_idx passes None explicitly', (CAT, 'return bin1d_vec(self.get_magnitudes(), mag_bins, right_continuous=True)', 'return bin1d_vec(self.get_magnitudes(), mag_bins, tol=None, right_continuous=True)'))
M('C06', 'binary cell number fixed before the loop is fine, a uniform draw is not', 'C06-D7.fresh',
  (BIN, '    # main simulation step in this loop\n    for idx in range(num_simulations):\n        if use_observed_counts:\n            num_cells_to_simulate = int(n_active_cells)\n',
   '    # main simulation step in this loop\n    jitter = numpy.random.uniform(0, 1)\n    for idx in range(num_simulations):\n        if use_observed_counts:\n            num_cells_to_simulate = int(n_active_cells)\n'))
M('C08', 'forecast total remembered on the object', 'C08-D3.total', (FOR, '        return self.sum()\n', '        if getattr(self, "_total", None) is None:\n            self._total = self.sum()\n        return self._total\n'))
E('C08', 'forecast total summed directly', (FOR, '        return self.sum()\n', '        return numpy.sum(self.data)\n'))
M('C09', 'at-most short circuit on the stored order', 'C09-D2', (STA, '    # some short-circuit cases for discrete distributions\n    if val > ex[-1]:\n        return 1.0', '    # some short-circuit cases for discrete distributions\n    if val > x[-1]:\n        return 1.0'))
M('C10', 'rate density normalised in place', 'C10-D4.inputs', (CALC, '    norm_apprx_rate_density = apprx_rate_density / numpy.sum(apprx_rate_density)', '    apprx_rate_density /= numpy.sum(apprx_rate_density)\n    norm_apprx_rate_density = apprx_rate_density'))
E('C10', 'rate density normalised on a copy', (CALC, '    norm_apprx_rate_density = apprx_rate_density / numpy.sum(apprx_rate_density)', '    norm_apprx_rate_density = numpy.array(apprx_rate_density, dtype=float)\n    norm_apprx_rate_density = norm_apprx_rate_density / numpy.sum(apprx_rate_density)'))
M('C01', 'event probability through the legacy binner', 'C01-D2.legacy',
  (CAT, '        idx = self.region.get_index_of(self.get_longitudes(), self.get_latitudes())\n        event_flag[idx] = 1\n        return event_flag',
   '        idx = self.region.get_index_of(self.get_longitudes(), self.get_latitudes())\n        event_flag[idx] = 1\n        if n_poly < 0:\n            from csep.core.regions import _bin_catalog_probability\n            return _bin_catalog_probability(self.get_longitudes(), self.get_latitudes(), n_poly, self.region.bbox_mask, self.region.idx_map, self.region.xs, self.region.ys)\n        return event_flag'))
M('C14', 'coordinates written with 15 digits', 'C14-D1.digits', (CAT, "                adict = {'lon': row[0],", "                adict = {'lon': '%.15g' % row[0],"))
M('C14', 'magnitude rounded for the file', 'C14-D1.digits', (CAT, "                         'mag': row[2],", "                         'mag': round(float(row[2]), 3),"))
E('C14', 'coordinates written with 17 digits', (CAT, "                adict = {'lon': row[0],", "                adict = {'lon': format(row[0], '.17g'),"))
E('C14', 'coordinates written through repr(float)', (CAT, "                adict = {'lon': row[0],", "                adict = {'lon': repr(float(row[0])),"))
M('C15', 'end_epoch kept after the first access', 'C15-D1.live', (FOR, 'import itertools\n', 'import itertools\nimport functools\n'), (FOR, '    @property\n    def end_epoch(self):', '    @functools.cached_property\n    def end_epoch(self):'))
M('C18', 'result loader memoised', 'C18-D4.fresh', (INI, 'import json\n', 'import json\nimport functools\n'), (INI, 'def load_evaluation_result(fname):', '@functools.lru_cache(maxsize=None)\ndef load_evaluation_result(fname):'))
M('C18', 'origins written with nine decimals', 'C18-D5', (REG, "'polygons': [{'lat': float(poly.origin[1]), 'lon': float(poly.origin[0])} for poly in self.polygons],", "'polygons': [{'lat': round(float(poly.origin[1]), 9), 'lon': round(float(poly.origin[0]), 9)} for poly in self.polygons],"))
E('C18', 'origins written as numpy doubles', (REG, "'polygons': [{'lat': float(poly.origin[1]), 'lon': float(poly.origin[0])} for poly in self.polygons],", "'polygons': [{'lat': float(numpy.float64(poly.origin[1])), 'lon': float(numpy.float64(poly.origin[0]))} for poly in self.polygons],"))
M('C20', 'spatial index remembered on the catalog', 'C03-D6', (CAT, '        try:\n            region_idx = self.region.get_index_of(self.get_longitudes(), self.get_latitudes())\n        except AttributeError:', '        try:\n            region_idx = self.region.get_index_of(self.get_longitudes(), self.get_latitudes())\n            self._last_idx = region_idx\n        except AttributeError:'))
for _p in ('C11', 'C05', 'C16', 'C02'):
    M(_p, 'magnitude bins written onto the shared region again', 'C11-D5.ownmags', (REG, '    region = copy.copy(region)\n    region.magnitudes = magnitudes', '    region.magnitudes = magnitudes'))
E('C11', 'magnitude bins on a deep copy of the region', (REG, '    region = copy.copy(region)\n    region.magnitudes = magnitudes', '    region = copy.deepcopy(region)\n    region.magnitudes = magnitudes'))
M('C11', 'forecast drops the region that carries its bins', 'C11-D5.ownregion', (FOR, '        self.region = create_space_magnitude_region(self.region, magnitudes)', '        create_space_magnitude_region(self.region, magnitudes)'))

# ------------------------------------------------------------------------------------------------ round 5 rules
_MB_OLD = 'def magnitude_bins(start_magnitude, end_magnitude, dmw):'
M('C02', 'magnitude_bins fills a missing start by truthiness', 'C02-D5.magbins',
  (REG, _MB_OLD, 'def magnitude_bins(start_magnitude=None, end_magnitude=None, dmw=None):'),
  (REG, '    return cleaner_range(start_magnitude, end_magnitude, dmw)', '    start_magnitude = start_magnitude or 2.5\n    return cleaner_range(start_magnitude, end_magnitude, dmw)'))
E('C02', 'magnitude_bins fills a missing start after a None test',
  (REG, _MB_OLD, 'def magnitude_bins(start_magnitude=None, end_magnitude=None, dmw=None):'),
  (REG, '    return cleaner_range(start_magnitude, end_magnitude, dmw)', '    if start_magnitude is None:\n        start_magnitude = 2.5\n    return cleaner_range(start_magnitude, end_magnitude, dmw)'))
_RS_OLD = '                # the region carries no magnitude bins: use default magnitude bins from csep\n                mag_bins = CSEP_MW_BINS\n                if self.region is not None:\n                    self.region.magnitudes = mag_bins\n                    self.region.num_mag_bins = len(mag_bins)\n'
for _p in ('C02', 'C03'):
    M(_p, 'explicit magnitude bins written into the shared region', 'C03-D6.local',
      (CAT, _RS_OLD, '                # the region carries no magnitude bins: use default magnitude bins from csep\n                mag_bins = CSEP_MW_BINS\n        if self.region is not None:\n            self.region.magnitudes = mag_bins\n            self.region.num_mag_bins = len(mag_bins)\n'))
for _p in ('C02', 'C03', 'C10'):
    M(_p, 'repair 8dc3645 undone: default bins stored on a region that may be None', 'G-BELIEF',
      (CAT, _RS_OLD, '                # the region carries no magnitude bins: use default magnitude bins from csep\n                mag_bins = CSEP_MW_BINS\n                self.region.magnitudes = mag_bins\n                self.region.num_mag_bins = len(mag_bins)\n'))
M('C03', 'located points remembered on the quadtree class', 'C03-D6.lookup',
  (REG, "    def _find_location(self, lon, lat):", "    _seen = {}\n\n    def _find_location(self, lon, lat):"),
  (REG, "        loc = numpy.logical_and(numpy.logical_and(lon >= self.bounds[:, 0], lat >= self.bounds[:, 1]),", "        if (lon, lat) in self._seen:\n            return self._seen[(lon, lat)]\n        self._seen[(lon, lat)] = numpy.array([], dtype=int)\n        loc = numpy.logical_and(numpy.logical_and(lon >= self.bounds[:, 0], lat >= self.bounds[:, 1]),"))
for _p, _r in (('C05', 'C05-D5.double'), ('C06', 'C06-D4.double'), ('C07', 'C07-D1.double'), ('C08', 'C08-D4.double'), ('C11', 'C11-D1.double'), ('C16', 'C16-D3.double')):
    M(_p, 'rates stored in single precision', _r, (FOR, '        self._data = data\n', '        self._data = data if data is None else numpy.asarray(data, dtype=numpy.float32)\n'))
    E(_p, 'rates stored as a double array', (FOR, '        self._data = data\n', '        self._data = data if data is None else numpy.asarray(data, dtype=numpy.float64)\n'))
M('C06', 'spatial marginal accumulated in half the precision', 'C06-D4.double', (FOR, '            return numpy.sum(self.data, axis=1)\n', "            return numpy.sum(self.data, axis=1, dtype='float32')\n"))
M('C17', 'tile bounds kept in single precision', 'C17-D4.double', (REG, '        self.bounds = bounds\n        self.cell_area = []', '        self.bounds = numpy.asarray(bounds).astype(numpy.float32)\n        self.cell_area = []'))
M('C01', 'cell edges kept in single precision', 'C01-D1.double', (REG, '        self.xs = xs\n', '        self.xs = numpy.float32(xs)\n'))
M('C06', 'brier wrapper normalises its seed by truthiness', 'C06-D1.forward', (BRI, '    # grid catalog onto spatial grid\n    try:\n        _ = observed_catalog.region.magnitudes', '    seed = int(seed) if seed else None\n    # grid catalog onto spatial grid\n    try:\n        _ = observed_catalog.region.magnitudes'))
E('C06', 'brier wrapper converts a given seed to int', (BRI, '    # grid catalog onto spatial grid\n    try:\n        _ = observed_catalog.region.magnitudes', '    if seed is not None:\n        seed = int(seed)\n    # grid catalog onto spatial grid\n    try:\n        _ = observed_catalog.region.magnitudes'))
for _p in ('C10', 'C13'):
    M(_p, 'filters default to one shared list', 'G-DEFAULT', (FOR, 'filter_spatial=False, filters=None, apply_mct=False,', 'filter_spatial=False, filters=[], apply_mct=False,'), (FOR, '        self.filters = filters or []\n', '        self.filters = filters\n'))
    E(_p, 'filters default to a list that is copied', (FOR, 'filter_spatial=False, filters=None, apply_mct=False,', 'filter_spatial=False, filters=[], apply_mct=False,'), (FOR, '        self.filters = filters or []\n', '        self.filters = list(filters)\n'))
M('C13', 'cursor rewound before the number of catalogs is read', 'C13-D2.count',
  (FOR, '                self.n_cat = self._idx\n                self._idx = 0\n                raise StopIteration()', '                self._idx = 0\n                self.n_cat = self._idx\n                raise StopIteration()'))
M('C14', 'catalog id of a frame kept only when truthy', 'C14-D7.fromdf', (CAT, "            catalog_id = df['catalog_id'].iloc[0]\n", "            catalog_id = df['catalog_id'].iloc[0]\n            catalog_id = int(catalog_id) if catalog_id else None\n"))
E('C14', 'catalog id of a frame converted after a None test', (CAT, "            catalog_id = df['catalog_id'].iloc[0]\n", "            catalog_id = df['catalog_id'].iloc[0]\n            catalog_id = int(catalog_id) if catalog_id is not None else None\n"))
for _p in ('C14', 'C18'):
    M(_p, 'regions rebuilt from a dictionary are kept on the class', 'C18-D5.fromdict',
      (REG, '    def __init__(self, polygons, dh, name=\'cartesian2d\', mask=None, magnitudes=None):', '    _built = {}\n\n    def __init__(self, polygons, dh, name=\'cartesian2d\', mask=None, magnitudes=None):'),
      (REG, '        out = cls.from_origins(origins, dh=dh, magnitudes=magnitudes, name=name)\n        return out', '        if name not in cls._built:\n            cls._built[name] = cls.from_origins(origins, dh=dh, magnitudes=magnitudes, name=name)\n        return cls._built[name]'))
M('C18', 'region dictionary built once and handed out again', 'C18-D5.todict',
  (REG, "    def to_dict(self):\n        adict = {\n            'name': str(self.name),\n            'dh': float(self.dh),\n            'polygons': [{'lat': float(poly.origin[1]), 'lon': float(poly.origin[0])} for poly in self.polygons],\n            'class_id': self.__class__.__name__\n        }\n        return adict",
   "    def to_dict(self):\n        if getattr(self, '_adict', None) is not None:\n            return self._adict\n        adict = {\n            'name': str(self.name),\n            'dh': float(self.dh),\n            'polygons': [{'lat': float(poly.origin[1]), 'lon': float(poly.origin[0])} for poly in self.polygons],\n            'class_id': self.__class__.__name__\n        }\n        self._adict = adict\n        return adict"))
M('C15', 'datetimes of a catalog computed once', 'C15-D1.live', (CAT, '        return list(map(epoch_time_to_utc_datetime, self.get_epoch_times()))\n', "        if getattr(self, '_dts', None) is None:\n            self._dts = list(map(epoch_time_to_utc_datetime, self.get_epoch_times()))\n        return self._dts\n"))
M('C15', 'forecast start time converted through the local zone', 'C15-D2.local', (FOR, '        # start and end time of the forecast\n        self.start_time = start_time\n', '        self.start_time = start_time.astimezone(datetime.timezone.utc) if start_time is not None else None\n'))
E('C15', 'aware forecast start time converted to UTC', (FOR, '        # start and end time of the forecast\n        self.start_time = start_time\n', '        self.start_time = start_time\n        if start_time is not None and start_time.tzinfo is not None:\n            self.start_time = start_time.astimezone(datetime.timezone.utc)\n'))
M('C17', 'cell areas computed once', 'C17-D4.areafresh',
  (REG, "        cell_area = numpy.array([geographical_area_from_bounds(bb[0],bb[1],bb[2],bb[3]) for bb in self.bounds])\n        self.cell_area = cell_area\n        return self.cell_area",
   "        if len(self.cell_area) != len(self.bounds):\n            self.cell_area = numpy.array([geographical_area_from_bounds(bb[0],bb[1],bb[2],bb[3]) for bb in self.bounds])\n        return self.cell_area"))
E('C17', 'cell areas returned without the temporary', (REG, "        cell_area = numpy.array([geographical_area_from_bounds(bb[0],bb[1],bb[2],bb[3]) for bb in self.bounds])\n        self.cell_area = cell_area\n        return self.cell_area",
   "        self.cell_area = numpy.array([geographical_area_from_bounds(bb[0],bb[1],bb[2],bb[3]) for bb in self.bounds])\n        return self.cell_area"))
M('C20', 'at-least short circuit on the stored order', 'C09-D2', (STA, '    if val > ex[-1]:\n        return 0.0\n    if val < ex[0]:\n        return 1.0', '    if val > x[-1]:\n        return 0.0\n    if val < x[0]:\n        return 1.0'))
M('C11', 'cells of a region sorted on construction', 'C20-D3.keeporder', (REG, '        self.polygons = polygons\n        self.poly_mask = mask\n        self.dh = dh', '        self.polygons = sorted(polygons, key=lambda p: tuple(p.origin))\n        self.poly_mask = mask\n        self.dh = dh'))
M('C11', 'northern tile bound inclusive', 'C17-D1', (REG, 'numpy.logical_and(lon < self.bounds[:, 2], lat < self.bounds[:, 3]))', 'numpy.logical_and(lon < self.bounds[:, 2], lat <= self.bounds[:, 3]))'))
for _p in ('C05', 'C06', 'C13', 'C16'):
    M(_p, 'unscaled forecast hands out its stored rates', 'C11-D1.view', (FOR, '        return self._data * self._scale\n', '        if numpy.isscalar(self._scale) and self._scale == 1:\n            return self._data\n        return self._data * self._scale\n'))
M('C16', 'space-magnitude counts accumulated without the magnitude guard', 'C03-D1',
  (CAT, '                if mag_idx[idx] == -1:\n                    raise ValueError("at least one magnitude value outside of the valid region.")\n', ''))
M('C05', 'space-magnitude counts remembered on the catalog', 'C03-D6.pure', (CAT, '                event_counts[(spatial_idx[idx], mag_idx[idx])] += 1\n        return event_counts', '                event_counts[(spatial_idx[idx], mag_idx[idx])] += 1\n        self._last_counts = event_counts\n        return event_counts'))

# ------------------------------------------------------------------------------------------------ round 6 rules
for _p in ('C01', 'C04'):
    M(_p, 'given region ignored when it compares equal to the bound one', 'C01-D2.given',
      (CAT, '        # update the region to the new region\n        if region is not None:\n            self.region = region\n',
       '        # update the region to the new region\n        if region is not None and (self.region is None or region != self.region):\n            self.region = region\n'))
E('C01', 'given region bound in a nested test',
  (CAT, '        # update the region to the new region\n        if region is not None:\n            self.region = region\n',
   '        # update the region to the new region\n        if not (region is None):\n            self.region = region\n'))
M('C02', 'integer grid built with an integer dtype', 'C02-D5.form', (CALC, 'return numpy.arange(start, end + d / 2, d) / scale', 'return numpy.arange(start, end + d / 2, d, dtype=int) / scale'))
E('C02', 'integer grid built with an explicit float dtype', (CALC, 'return numpy.arange(start, end + d / 2, d) / scale', 'return numpy.arange(start, end + d / 2, d, dtype=numpy.float64) / scale'))
for _p in ('C02', 'C03', 'C05'):
    M(_p, 'magnitudes converted to double before binning', 'C02-D4.asstored',
      (CAT, '        idx = bin1d_vec(self.get_magnitudes(), mag_bins, tol=tol, right_continuous=True)\n        # events below', '        idx = bin1d_vec(self.get_magnitudes().astype(float), mag_bins, tol=tol, right_continuous=True)\n        # events below'))
M('C03', 'magnitude index handed back as a masked array and tested with == -1', 'C03-D1',
  (CAT, '        return bin1d_vec(self.get_magnitudes(), mag_bins, right_continuous=True)\n', '        return numpy.ma.masked_less(bin1d_vec(self.get_magnitudes(), mag_bins, right_continuous=True), 0)\n'),
  (CAT, '            mag_idx = bin1d_vec(self.get_magnitudes(), mag_bins, tol=tol, right_continuous=True)\n', '            mag_idx = self.get_mag_idx()\n'),
  (CAT, '            for idx in range(spatial_idx.shape[0]):\n                if mag_idx[idx] == -1:\n                    raise ValueError("at least one magnitude value outside of the valid region.")\n                event_counts[(spatial_idx[idx], mag_idx[idx])] += 1\n',
   '            if numpy.any(mag_idx == -1):\n                raise ValueError("at least one magnitude value outside of the valid region.")\n            numpy.add.at(event_counts, (spatial_idx, mag_idx), 1)\n'))
for _p in ('C09', 'C07'):
    M(_p, 'last ecdf remembered at module level', 'C09-D1.stateless',
      (STA, '    xs = numpy.sort(x)\n    ys = numpy.arange(1, len(x) + 1) / float(len(x))\n    return xs, ys\n',
       '    global _LAST\n    if _LAST is not None and _LAST[0] is x:\n        return _LAST[1]\n    xs = numpy.sort(x)\n    ys = numpy.arange(1, len(x) + 1) / float(len(x))\n    _LAST = (x, (xs, ys))\n    return xs, ys\n'),
      (STA, 'def ecdf(x):', '_LAST = None\n\n\ndef ecdf(x):'))
for _p in ('C15', 'C12'):
    M(_p, 'string to epoch through a second parser', 'C15-D3.compose',
      (TIM, '    dt = strptime_to_utc_datetime(time_string, format)\n    return datetime_to_utc_epoch(dt)\n',
       "    if len(time_string) == 19:\n        return datetime_to_utc_epoch(datetime.datetime(int(time_string[0:4]), int(time_string[5:7]), int(time_string[8:10]), int(time_string[11:13]), int(time_string[14:16]), int(time_string[17:19])))\n    dt = strptime_to_utc_datetime(time_string, format)\n    return datetime_to_utc_epoch(dt)\n"))
E('C15', 'string to epoch composed on two returns',
  (TIM, '    dt = strptime_to_utc_datetime(time_string, format)\n    return datetime_to_utc_epoch(dt)\n',
   "    if format is None:\n        return datetime_to_utc_epoch(strptime_to_utc_datetime(time_string, parse_string_format(time_string)))\n    dt = strptime_to_utc_datetime(time_string, format)\n    return datetime_to_utc_epoch(dt)\n"))
for _p in ('C04', 'C13'):
    M(_p, 'filter trusts remembered statements', 'C04-D7.select',
      (CAT, "        if isinstance(statements, str):\n            name = statements.split(' ')[0]", "        if statements == self.filters and self.filters:\n            filtered = self.catalog\n        elif isinstance(statements, str):\n            name = statements.split(' ')[0]"))
M('C13', 'magnitude test zips the forecast with its recorded counts', 'C13-D9.complete',
  (CEV, '    t0 = time.time()\n    for i, catalog in enumerate(forecast):\n        mag_counts = catalog.magnitude_counts()', '    t0 = time.time()\n    for i, (cnt, catalog) in enumerate(zip(forecast.get_event_counts(), forecast)):\n        mag_counts = catalog.magnitude_counts()'))
E('C13', 'magnitude test zips the forecast with a counter', (CEV, '    t0 = time.time()\n    for i, catalog in enumerate(forecast):\n        mag_counts = catalog.magnitude_counts()', '    t0 = time.time()\n    import itertools\n    for catalog, i in zip(forecast, itertools.count()):\n        mag_counts = catalog.magnitude_counts()'))
M('C13', 'expected rates no longer refuse a forecast without magnitude bins up front', 'C13-D7.precheck',
  (FOR, '        if self.region is None or self.region.magnitudes is None:\n            raise AttributeError("Forecast must have space-magnitude regions to compute expected rates.")\n', ''))
M('C14', 'empty catalog returns before the scratch file is moved into place', 'C14-D1.target',
  (CAT, "        with open(filename, write_string, newline='') as outfile:", "        target = filename if append else filename + '.part'\n        with open(target, write_string, newline='') as outfile:"),
  (CAT, "                writer.writerow(adict)\n", "                writer.writerow(adict)\n        if target != filename:\n            os.replace(target, filename)\n"))
M('C16', 'binary kernel flattens in memory order', 'C05-D4.order', (BIN, '    rates = numpy.asarray(forecast, dtype=float).ravel()', "    rates = numpy.asarray(forecast, dtype=float).ravel(order='A')"))
M('C17', 'bounding box from the cell origins when they exist', 'C17-D4.bbox',
  (REG, '        return (min(self.bounds[:, 0]), max(self.bounds[:, 2]), min(self.bounds[:, 1]), max(self.bounds[:, 3]))', "        if hasattr(self, 'xs'):\n            return (self.xs.min(), self.xs.max(), self.ys.min(), self.ys.max())\n        return (min(self.bounds[:, 0]), max(self.bounds[:, 2]), min(self.bounds[:, 1]), max(self.bounds[:, 3]))"))
for _p in ('C17', 'C20'):
    M(_p, 'lower tile edges compared with a padded coordinate', 'C17-D1',
      (REG, 'loc = numpy.logical_and(numpy.logical_and(lon >= self.bounds[:, 0], lat >= self.bounds[:, 1]),', 'loc = numpy.logical_and(numpy.logical_and(lon + 1e-12 >= self.bounds[:, 0], lat + 1e-12 >= self.bounds[:, 1]),'))
M('C19', 'csep header recognised by a non-numeric first field', 'C19-D2.header',
  (RDR, "        # ascii file has csv header with column names as text\n        if line[0] == 'lon':\n            return True\n        else:\n            return False", "        # ascii file has csv header with column names as text\n        return not line[0].replace('.', '', 1).lstrip('-').isdigit()"))
E('C19', 'csep header recognised case-insensitively',
  (RDR, "        # ascii file has csv header with column names as text\n        if line[0] == 'lon':\n            return True\n        else:\n            return False", "        # ascii file has csv header with column names as text\n        return line[0].strip().lower() in ('lon', 'longitude')"))
M('C20', 'benchmark rates looked up with the first forecast\'s bin indices', 'C11-D3',
  (FOR, '        idx = self.get_index_of(lons, lats)\n', '        idx = self.get_index_of(lons, lats) if getattr(self, "_shared_idx", None) is None else self._shared_idx\n'))
M('C12', 'iterator rewinds the cursor itself', 'C13-D1', (FOR, '    def __iter__(self):\n        return self', '    def __iter__(self):\n        self._idx = 0\n        return self'))

# ------------------------------------------------------------------------------------------------ the three repairs of round 6, undone
M('C03', 'fallback to the default bins only for a missing attribute', 'C03-D7.nobins',
  (CAT, "            except AttributeError:\n                mag_bins = None\n            if mag_bins is None:\n                # the region carries no magnitude bins: use default magnitude bins from csep\n",
   "            except AttributeError:\n                # the region carries no magnitude bins: use default magnitude bins from csep\n"))
M('C03', 'quadtree grid without a magnitudes attribute', 'C03-D7.regionattrs', (REG, "        # magnitude bins are bound by the from_* constructors (or later); a grid without them has none, like CartesianGrid2D\n        self.magnitudes = None\n", ''))
E('C03', 'quadtree magnitudes default in the class body', (REG, "        # magnitude bins are bound by the from_* constructors (or later); a grid without them has none, like CartesianGrid2D\n        self.magnitudes = None\n", ''),
  (REG, "    def __init__(self, polygons, quadkeys, bounds, name='QuadtreeGrid2d', mask=None):", "    magnitudes = None\n\n    def __init__(self, polygons, quadkeys, bounds, name='QuadtreeGrid2d', mask=None):"))
M('C19', 'HORUS magnitudes read in single precision', 'C19-D3.width', (RDR, "           'Mw': (9, \"<f8\")}", "           'Mw': (9, \"<f4\")}"))
E('C19', 'HORUS value columns typed float64 by name', (RDR, "           'Mw': (9, \"<f8\")}", "           'Mw': (9, \"float64\")}"))

# ------------------------------------------------------------------------------------------------ round 7 rules
for _p in ('C01', 'C04'):
    M(_p, 'masking through numpy.digitize on the lower edges', 'C01-D1.kernel',
      (REG, '        idx = _bin_coordinates(lons, self.xs, self.dh)\n        idy = _bin_coordinates(lats, self.ys, self.dh)\n        # handles the case where values are outside of the region',
       '        idx = numpy.digitize(lons, self.xs) - 1\n        idy = numpy.digitize(lats, self.ys) - 1\n        # handles the case where values are outside of the region'))
M('C06', 'range check of the random numbers on a possibly empty array', 'C06-D7.empty',
  (POI, '    else:\n        # TODO: ensure that random numbers are all between 0 and 1.\n        pass\n', '    if numpy.max(random_numbers) >= 1:\n        raise ValueError("random numbers must be below 1")\n'))
E('C06', 'range check of the random numbers with an initial value',
  (POI, '    else:\n        # TODO: ensure that random numbers are all between 0 and 1.\n        pass\n', '    if numpy.max(random_numbers, initial=0.0) >= 1:\n        raise ValueError("random numbers must be below 1")\n'))
M('C17', 'zero-area shortcut on closeness', 'C17-D4.areazero', (REG, '    if lon1 == lon2 or lat1 == lat2:\n        return 0', '    if numpy.isclose(lon1, lon2) or numpy.isclose(lat1, lat2):\n        return 0'))
M('C17', 'bounds computed from the sorted keys', 'C20-D3.keeporder', (REG, '        bounds = quadtree_grid_bounds(numpy.array(quadk))', '        bounds = quadtree_grid_bounds(numpy.unique(quadk))'))
M('C02', 'histogram written through the unique indices', 'C03-D', (CAT, '        numpy.add.at(out, idx[idx != -1], 1)\n', '        occupied, counts = numpy.unique(idx, return_counts=True)\n        out[occupied] = counts\n'))
M('C03', 'filter threshold as a numpy double', 'C04-D1', (CAT, "                filtered = self.catalog[operators[oper](self.catalog[name], float(value))]\n            else:\n                name, oper, value = statements.split(' ')\n                filtered = self.catalog[operators[oper](self.catalog[name], float(value))]",
                                                     "                filtered = self.catalog[operators[oper](self.catalog[name], numpy.float64(value))]\n            else:\n                name, oper, value = statements.split(' ')\n                filtered = self.catalog[operators[oper](self.catalog[name], numpy.float64(value))]"))
for _p in ('C10', 'C13'):
    M(_p, 'spatial counts through a buffered increment', 'C03-D2', (CAT, '        numpy.add.at(event_counts, idx, 1)\n        return event_counts', '        event_counts[idx] += 1\n        return event_counts'))
M('C13', 'inclusive filter operators with a tolerance', 'C04-D1', (CAT, "                     '>=': operator.ge,", "                     '>=': lambda x, b: (x > b) | numpy.isclose(x, b),"))

# ------------------------------------------------------------------------------------------------ round 8 rules (degenerate members)
_ER_LOOP = '                cat.region = self.region\n                gridded_counts = cat.spatial_magnitude_counts()\n'
for _p in ('C13', 'C20'):
    M(_p, 'empty synthetic catalogs skipped before the accumulator exists', 'C13-D7.everycat',
      (FOR, _ER_LOOP, '                cat.region = self.region\n                if cat.event_count == 0:\n                    continue\n                gridded_counts = cat.spatial_magnitude_counts()\n'))
E('C13', 'skipped flag computed but every catalog gridded',
  (FOR, _ER_LOOP, '                cat.region = self.region\n                nothing = cat.event_count == 0\n                gridded_counts = cat.spatial_magnitude_counts()\n'))
M('C08', 'tie test through the smallest gap of the sorted ranks', 'C08-D5.defined',
  (POI, '    _, repcounts = numpy.unique(r, return_counts=True)\n    repnum = repcounts[repcounts > 1]\n    if repnum.size != 0:\n',
   '    _, repcounts = numpy.unique(r, return_counts=True)\n    repnum = repcounts[repcounts > 1]\n    if numpy.diff(numpy.sort(r)).min() == 0:\n'))
E('C08', 'tie test through the smallest gap, guarded by the sample size',
  (POI, '    _, repcounts = numpy.unique(r, return_counts=True)\n    repnum = repcounts[repcounts > 1]\n    if repnum.size != 0:\n',
   '    _, repcounts = numpy.unique(r, return_counts=True)\n    repnum = repcounts[repcounts > 1]\n    if r.size > 1 and numpy.diff(numpy.sort(r)).min() == 0:\n'))
E('C20', 'gaps of the sorted ranks are order-free',
  (POI, '    _, repcounts = numpy.unique(r, return_counts=True)\n    repnum = repcounts[repcounts > 1]\n    if repnum.size != 0:\n',
   '    _, repcounts = numpy.unique(r, return_counts=True)\n    repnum = repcounts[repcounts > 1]\n    if r.size > 1 and numpy.diff(numpy.sort(r)).min() == 0:\n'))
M('C09', 'a zero observation taken for a missing one', 'C09-D3.nopair',
  (STA, '    # delta 1 prob of observation at least n_obs events given the forecast\n', '    if not obs_count or len(sim_counts) == 0:\n        return None, None\n    # delta 1 prob of observation at least n_obs events given the forecast\n'))
E('C09', 'no scores for an empty sample only',
  (STA, '    # delta 1 prob of observation at least n_obs events given the forecast\n', '    if len(sim_counts) == 0:\n        return None, None\n    # delta 1 prob of observation at least n_obs events given the forecast\n'))
M('C09', 'shortcut for a value on the maximum', 'C09-D2.ret',
  (STA, '    if val < ex[0]:\n        return 1.0\n    return eyc[numpy.searchsorted(ex, val)]', '    if val < ex[0]:\n        return 1.0\n    if val == ex[-1]:\n        return eyc[-1]\n    return eyc[numpy.searchsorted(ex, val)]'))
M('C14', 'catalog id written only when truthy', 'C14-D7.todf', (CAT, "        df['catalog_id'] = self.catalog_id\n", "        if self.catalog_id:\n            df['catalog_id'] = self.catalog_id\n"))
E('C14', 'catalog id written unless it is None... and otherwise as None', (CAT, "        df['catalog_id'] = self.catalog_id\n", "        if self.catalog_id is not None:\n            df['catalog_id'] = self.catalog_id\n        else:\n            df['catalog_id'] = None\n"))
M('C14', 'write_ascii leaves before opening the file', 'C14-D1.created',
  (CAT, "        if append:\n            write_string = 'a'\n", "        if not write_header and self.event_count == 0:\n            return\n        if append:\n            write_string = 'a'\n"))
M('C14', 'reader folds longitudes onto [-180, 180)', 'C14-D1.read', (RDR, "            lon = float(line[0])\n            lat = float(line[1])\n            magnitude = float(line[2])\n            # maybe fractional",
                                                                  "            lon = float(line[0])\n            if lon >= 180.0:\n                lon -= 360.0\n            lat = float(line[1])\n            magnitude = float(line[2])\n            # maybe fractional"))
_GI = '            for i in range(len(lons)):\n                idx = numpy.append(idx, self._find_location(lons[i], lats[i]))\n'
for _p in ('C17', 'C03'):
    M(_p, 'located index kept only when truthy', 'C17-D4.keep',
      (REG, _GI, '            for i in range(len(lons)):\n                loc = self._find_location(lons[i], lats[i])\n                if numpy.any(loc) or numpy.size(loc) == 0:\n                    idx = numpy.append(idx, loc)\n'))
M('C17', 'longitudes folded before the lookup', 'C17-D4.asgiven',
  (REG, '            idx = numpy.array([])\n            for i in range(len(lons)):', '            lons = numpy.where(numpy.asarray(lons) >= 180., numpy.asarray(lons) - 360., lons)\n            idx = numpy.array([])\n            for i in range(len(lons)):'))
E('C17', 'coordinates converted to arrays before the lookup',
  (REG, '            idx = numpy.array([])\n            for i in range(len(lons)):', '            lons = numpy.asarray(lons)\n            lats = numpy.asarray(lats)\n            idx = numpy.array([])\n            for i in range(len(lons)):'))
M('C17', 'threshold defaulted by truthiness', 'C17-D3.asked',
  (REG, '        lon = catalog.get_longitudes()\n        lat = catalog.get_latitudes()\n\n        qk = []\n        num = []\n\n        _create_tile(', '        lon = catalog.get_longitudes()\n        lat = catalog.get_latitudes()\n        threshold = threshold or 1\n\n        qk = []\n        num = []\n\n        _create_tile('))
for _p in ('C17', 'C03', 'C01'):
    M(_p, 'repair c6d93d0 undone: index list becomes an array only inside the loop', 'G-EMPTYLOOP', (REG, '            idx = numpy.array([])\n            for i in range(len(lons)):', '            idx = []\n            for i in range(len(lons)):'))
M('C19', 'repair 806673d undone: optional event_id column read unconditionally', 'C19-D2.optional', (RDR, "            event_id = line[6] if len(line) > 6 else ''\n", "            event_id = line[6]\n"))
E('C19', 'optional event_id column read under try', (RDR, "            event_id = line[6] if len(line) > 6 else ''\n", "            try:\n                event_id = line[6]\n            except IndexError:\n                event_id = ''\n"))
M('C18', 'one-element distribution written as a scalar', 'C18-D2.write',
  (MOD, "        try:\n            td_list = self.test_distribution.tolist()\n        except AttributeError:\n            td_list = list(self.test_distribution)\n",
   "        if numpy.size(self.test_distribution) == 1:\n            td_list = numpy.asarray(self.test_distribution).item()\n        else:\n            td_list = list(self.test_distribution)\n"))
M('C18', 'decoded statistic replaced when falsy', 'C18-D1.asloaded',
  (INI, "    eval_result = evaluation_result_factory[evaluation_type].from_dict(\n        json_dict)", "    json_dict['min_mw'] = float(json_dict['min_mw']) if json_dict.get('min_mw') else None\n    eval_result = evaluation_result_factory[evaluation_type].from_dict(\n        json_dict)"))
M('C11', 'rates table read without ndmin', 'C11-D8.rank',
  (RDR, "    rates = data[1:, 3:]\n    rates = rates.astype(float)\n", "    rates = numpy.loadtxt(csv_fname, delimiter=',', skiprows=1, usecols=range(3, data.shape[1]))\n"))
E('C11', 'rates table read with ndmin=2',
  (RDR, "    rates = data[1:, 3:]\n    rates = rates.astype(float)\n", "    rates = numpy.loadtxt(csv_fname, delimiter=',', skiprows=1, usecols=range(3, data.shape[1]), ndmin=2)\n"))
M('C06', 'prescribed number of active cells capped inside the simulator', 'C06-D7.prescribed',
  (BIN, '        num_active_cells = 0\n        while num_active_cells < sim_cells:', '        sim_cells = min(sim_cells, numpy.count_nonzero(numpy.diff(sampling_weights)))\n        num_active_cells = 0\n        while num_active_cells < sim_cells:'))
M('C06', 'observed number and Poisson draw swapped in a conditional expression', 'C06-D7.count',
  (POI, '        if use_observed_counts:\n            num_events_to_simulate = int(n_obs)\n        else:\n            num_events_to_simulate = int(\n                numpy.random.poisson(expected_forecast_count))\n',
   '        num_events_to_simulate = int(numpy.random.poisson(expected_forecast_count)) if use_observed_counts else int(n_obs)\n'))
E('C06', 'number of events chosen by a conditional expression',
  (POI, '        if use_observed_counts:\n            num_events_to_simulate = int(n_obs)\n        else:\n            num_events_to_simulate = int(\n                numpy.random.poisson(expected_forecast_count))\n',
   '        num_events_to_simulate = int(n_obs) if use_observed_counts else int(numpy.random.poisson(expected_forecast_count))\n'))
M('C02', 'index converted to integers before the range tests', 'C02-D3.castlast',
  (CALC, '    idx = numpy.asarray(idx)  # assure idx is an array\n', '    idx = numpy.asarray(idx).astype(numpy.int64)\n'))
M('C02', 'decimals of start counted without the trailing zero', 'C02-D5.tenths',
  (CALC, "    num_decimals_bins = len(str(float(start)).split('.')[1])", "    num_decimals_bins = len(numpy.format_float_positional(float(start), trim='-').partition('.')[2])"))
E('C02', 'decimals of start counted from repr', (CALC, "    num_decimals_bins = len(str(float(start)).split('.')[1])", "    num_decimals_bins = len(repr(float(start)).partition('.')[2])"))
M('C01', 'cells ranked among the occurring coordinates', 'C01-D5',
  (REG, '        idx = bin1d_vec(midpoints[:, 0], xs)\n        idy = bin1d_vec(midpoints[:, 1], ys)\n', '        idx = numpy.unique(nd_origins[:, 0], return_inverse=True)[1]\n        idy = numpy.unique(nd_origins[:, 1], return_inverse=True)[1]\n'))
M('C20', 'active bins counted as non-zero positions', 'C08-D3', (BIN, '    N = len(np.unique(np.nonzero(catalog.spatial_magnitude_counts().ravel())))', '    N = np.count_nonzero(np.unique(np.nonzero(catalog.spatial_magnitude_counts().ravel())))'))
M('C13', 'loader yields nothing for a file without records', 'C12-D2',
  (CAT, '                # yield final catalog, note: since this is just loading catalogs, it has no idea how many should be there\n', '                if prev_id is None:\n                    return\n                # yield final catalog, note: since this is just loading catalogs, it has no idea how many should be there\n'))

# ------------------------------------------------------------------------------------------------ round 9 rules (same-type confusions)
M('C02', 'scale is the smaller of the two factors', 'C02-D5.larger', (CALC, '    scale = max(10**num_decimals_bins, _snap_to_integer(1 / h))', '    scale = min(10**num_decimals_bins, _snap_to_integer(1 / h))'))
M('C06', 'Brier sampling weights from the probability of one or more events', 'C06-D4.rates',
  (BRI, '    sampling_weights = numpy.cumsum(forecast_data.filled(0.0).ravel())', '    sampling_weights = numpy.cumsum(1 - poisson.cdf(0, forecast_data.filled(0.0).ravel()))'))
E('C06', 'Brier sampling weights from a flattened copy of the rates',
  (BRI, '    sampling_weights = numpy.cumsum(forecast_data.filled(0.0).ravel())', '    sampling_weights = numpy.cumsum(numpy.asarray(forecast_data.filled(0.0)).flatten())'))
M('C13', 'cache receives the catalog as loaded, the pass yields the filtered one', 'C13-D5.cached',
  (FOR, "        # apply filtering to catalogs, these can throw errors if not configured properly\n        if self.apply_filters:", "        unfiltered = catalog\n        # apply filtering to catalogs, these can throw errors if not configured properly\n        if self.apply_filters:"),
  (FOR, "                catalog = catalog.filter(self.filters)\n", "                catalog = catalog.filter(self.filters, in_place=False)\n"),
  (FOR, '            self._catalogs.append(catalog)', '            self._catalogs.append(unfiltered)'))
M('C13', 'evaluation loops over the container behind the iterator', 'C13-D10.iterator',
  (CEV, '    # THIS IS NEW - returns the average events in the magnitude bins\n    union_histogram = numpy.zeros(len(forecast.magnitudes))\n    for j, cat in enumerate(forecast):\n',
   '    # THIS IS NEW - returns the average events in the magnitude bins\n    union_histogram = numpy.zeros(len(forecast.magnitudes))\n    for j, cat in enumerate(forecast.catalogs):\n'))
M('C14', 'region class handed the catalog dictionary', 'C14-D5.restore', (CAT, 'setattr(out, k, region_loader[class_id].from_dict(adict[k]))', 'setattr(out, k, region_loader[class_id].from_dict(adict))'))
M('C14', 'catalog id read from the depth column', 'C14-D7.idcolumn', (RDR, '                catalog_id = int(line[5])', '                catalog_id = int(line[4])'))
M('C05', 'space-magnitude counts located with (lats, lons)', 'C01-D2',
  (CAT, '            spatial_idx = self.region.get_index_of(self.get_longitudes(), self.get_latitudes())', '            spatial_idx = self.region.get_index_of(self.get_latitudes(), self.get_longitudes())'))
M('C19', 'repair a76309f undone: the parsed fraction of the second is dropped', 'C19-D4.subsecond', (RDR, "        out['microsecond'] = dt.microsecond\n", ""),
  (RDR, "            date_time_dict['second'],\n            date_time_dict['microsecond']\n        )\n        out_tup", "            date_time_dict['second']\n        )\n        out_tup"),
  (RDR, "                date_time_dict['second'],\n                date_time_dict['microsecond']\n            )", "                date_time_dict['second']\n            )"))
M('C19', 'one reader ignores the fraction the helper returns', 'C19-D4.components',
  (RDR, "            date_time_dict['second'],\n            date_time_dict['microsecond']\n        )\n        out_tup", "            date_time_dict['second']\n        )\n        out_tup"))

# ------------------------------------------------------------------------------------------------ round 10 rules (exceptional and fallback paths)
M('C08', 'small W-test samples refused with nan', 'C08-D5.result',
  (POI, '        warnings.warn("Sample size too small for normal approximation.")\n', '        warnings.warn("Sample size too small for normal approximation.")\n        return {\'z_statistic\': numpy.nan, \'probability\': numpy.nan}\n'))
M('C08', 'floating point conditions of the T-test raised', 'C08-D5.fperror',
  (POI, '    X1 = numpy.log(target_event_rates1)  # Log of every element of Forecast 1\n', '    numpy.seterr(all="ignore")\n    with numpy.errstate(divide=\'raise\', invalid=\'raise\'):\n        pass\n    X1 = numpy.log(target_event_rates1)  # Log of every element of Forecast 1\n'))
for _p in ('C12', 'C13', 'C07'):
    M(_p, 'any error of the loader ends the pass', 'C13-D1.endonly', (FOR, '                self._idx += 1\n            except StopIteration:', '                self._idx += 1\n            except Exception:'))
M('C18', 'strict json: non-finite statistics refused', 'C18-D4.nonfinite',
  (REP, "json.dump(data, f, indent=4, separators=(',', ': '), sort_keys=True, default=_json_default)", "json.dump(data, f, indent=4, separators=(',', ': '), sort_keys=True, default=_json_default, allow_nan=False)"))
E('C18', 'allow_nan spelt out', (REP, "json.dump(data, f, indent=4, separators=(',', ': '), sort_keys=True, default=_json_default)", "json.dump(data, f, indent=4, separators=(',', ': '), sort_keys=True, default=_json_default, allow_nan=True)"))
for _p in ('C18', 'C20'):
    M(_p, 'region dictionary without dh accepted', 'C18-D5.dhrequired', (REG, '        if dh is None:\n            raise AttributeError("cannot create region without dh")\n', ''))
M('C11', 'keywords filtered through the loader signature', 'C11-D6.kwargs',
  (INI, '    forecast = loader(fname, **kwargs)', '    import inspect\n    accepted = inspect.signature(loader).parameters\n    forecast = loader(fname, **{k: v for k, v in kwargs.items() if k in accepted})'))
M('C04', 'masking errors relabelled as a missing region', 'C04-D6.refusal',
  (CAT, '        mask = self.region.get_masked(self.get_longitudes(), self.get_latitudes())\n', '        try:\n            mask = self.region.get_masked(self.get_longitudes(), self.get_latitudes())\n        except AttributeError:\n            raise CSEPCatalogException("Must have region to filter spatially")\n'))
M('C02', 'non-finite indices reported before the clamp', 'C02-D3.closed',
  (CALC, '    idx = numpy.asarray(idx)  # assure idx is an array\n', '    idx = numpy.asarray(idx)  # assure idx is an array\n    idx[~numpy.isfinite(idx)] = -1\n'))
M('C02', 'forecast lookup warns for a magnitude below the first edge', 'C11-D3.raise',
  (FOR, '            raise ValueError("mags outside the range of forecast magnitudes.")', '            import warnings\n            warnings.warn("mags outside the range of forecast magnitudes.")'))
for _p in ('C16', 'C06'):
    M(_p, 'repair 0025a16 undone: the region fallback waits for an exception the try cannot raise', 'G-DEADHANDLER',
      (BRI, '    except (AttributeError, CSEPCatalogException):', '    except CSEPCatalogException:'))
M('C05', 'repair 0025a16 undone in the L-test: the region fallback waits for an exception the try cannot raise', 'G-DEADHANDLER',
  (POI, '    # grid catalog onto spatial grid\n    # grid catalog onto spatial grid\n    try:\n        _ = observed_catalog.region.magnitudes\n    except (AttributeError, CSEPCatalogException):',
   '    # grid catalog onto spatial grid\n    # grid catalog onto spatial grid\n    try:\n        _ = observed_catalog.region.magnitudes\n    except CSEPCatalogException:'))
E('C16', 'region fallback for a missing attribute only', (BRI, '    except (AttributeError, CSEPCatalogException):', '    except AttributeError:'))
