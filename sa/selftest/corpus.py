"""Seeded variants for checker self-validation. kind 'M' = behaviour-breaking edit that must be reported under
the clause prefix `expect`; kind 'E' = behaviour-preserving edit that must stay silent."""
VARIANTS = []


def M(pid, name, expect, *edits):
    VARIANTS.append({'pid': pid, 'kind': 'M', 'name': name, 'expect': expect, 'edits': list(edits)})


def E(pid, name, *edits, **kw):
    VARIANTS.append({'pid': pid, 'kind': 'E', 'name': name, 'expect': None, 'edits': list(edits), **kw})


CALC = 'csep/utils/calc.py'
REG = 'csep/core/regions.py'
CAT = 'csep/core/catalogs.py'
FOR = 'csep/core/forecasts.py'
POI = 'csep/core/poisson_evaluations.py'
BIN = 'csep/core/binomial_evaluations.py'
BRI = 'csep/core/brier_evaluations.py'
CEV = 'csep/core/catalog_evaluations.py'
STA = 'csep/utils/stats.py'
TIM = 'csep/utils/time_utils.py'
RDR = 'csep/utils/readers.py'
MOD = 'csep/models.py'
INI = 'csep/__init__.py'
REP = 'csep/core/repositories.py'

# ------------------------------------------------------------------------------------------------ C02
M('C02', 'floor->rint', 'C02-D1', (CALC, 'idx = numpy.floor((p', 'idx = numpy.rint((p'))
M('C02', 'floor->trunc', 'C02-D1', (CALC, 'idx = numpy.floor((p', 'idx = numpy.trunc((p'))
M('C02', 'round inside floor', 'C02-D1', (CALC, 'numpy.floor((p - a0 + p_tol + a0_tol) / (h - h_tol))', 'numpy.floor(numpy.round((p - a0 + p_tol + a0_tol) / (h - h_tol), 9))'))
M('C02', 'h - h_tol -> h + h_tol', 'C02-D2', (CALC, '/ (h - h_tol))', '/ (h + h_tol))'))
M('C02', 'h_tol dropped', 'C02-D2', (CALC, '/ (h - h_tol))', '/ h)'))
M('C02', '+p_tol -> -p_tol', 'C02-D2', (CALC, 'p - a0 + p_tol + a0_tol', 'p - a0 - p_tol + a0_tol'))
M('C02', 'a0_tol dropped', 'C02-D2', (CALC, 'p - a0 + p_tol + a0_tol', 'p - a0 + p_tol'))
M('C02', 'abs dropped in tolerance', 'C02-D2', (CALC, 'return numpy.abs(v) * numpy.finfo(v.dtype).eps', 'return v * numpy.finfo(v.dtype).eps'))
M('C02', 'eps dropped in tolerance', 'C02-D2', (CALC, 'return numpy.abs(v) * numpy.finfo(v.dtype).eps', 'return numpy.abs(v) * 1e-3'))
M('C02', 'clamp to len(bins)', 'C02-D3', (CALC, 'idx[idx >= len(bins) - 1] = len(bins) - 1', 'idx[idx >= len(bins) - 1] = len(bins)'))
M('C02', 'clamp from len(bins)-2', 'C02-D3', (CALC, 'idx[idx >= len(bins) - 1] = len(bins) - 1', 'idx[idx >= len(bins) - 2] = len(bins) - 1'))
M('C02', 'below-range -> 0 in open mode', 'C02-D3', (CALC, '        idx[idx < 0] = -1\n', '        idx[idx < 0] = 0\n'))
M('C02', 'closed upper bound off by one', 'C02-D3', (CALC, 'idx[(idx < 0) | (idx >= len(bins))] = -1', 'idx[(idx < 0) | (idx > len(bins))] = -1'))
M('C02', 'closed lower bound <=0', 'C02-D3', (CALC, 'idx[(idx < 0) | (idx >= len(bins))] = -1', 'idx[(idx <= 0) | (idx >= len(bins))] = -1'))
M('C02', 'closed upper test dropped', 'C02-D3', (CALC, 'idx[(idx < 0) | (idx >= len(bins))] = -1', 'idx[idx < 0] = -1'))
M('C02', 'single-edge not forced open', 'C02-D3', (CALC, "        right_continuous = True\n        h = 1.", "        h = 1."))
M('C02', 'negative spacing accepted', 'C02-D3', (CALC, '    if h < 0:\n        raise ValueError("grid spacing must be positive and monotonically increasing.")\n', ''))
M('C02', 'magnitude_counts drops right_continuous', 'C02-D4', (CAT, 'idx = bin1d_vec(self.get_magnitudes(), mag_bins, tol=tol, right_continuous=True)', 'idx = bin1d_vec(self.get_magnitudes(), mag_bins, tol=tol)'))
M('C02', 'get_magnitude_index drops right_continuous', 'C02-D4', (FOR, 'idm = bin1d_vec(mags, self.magnitudes, tol=tol, right_continuous=True)', 'idm = bin1d_vec(mags, self.magnitudes, tol=tol)'))
M('C02', 'coordinate call right_continuous', 'C02-D4', (REG, '        idx = bin1d_vec(lons, self.xs)\n        idy = bin1d_vec(lats, self.ys)\n        if numpy.any(idx == -1)', '        idx = bin1d_vec(lons, self.xs, right_continuous=True)\n        idy = bin1d_vec(lats, self.ys)\n        if numpy.any(idx == -1)'))
M('C02', 'cleaner_range round->floor', 'C02-D5', (CALC, 'start = numpy.round(scale * start)', 'start = numpy.floor(scale * start)'))
M('C02', 'cleaner_range end not rounded', 'C02-D5', (CALC, 'end = numpy.round(scale * end)', 'end = scale * end'))
M('C02', 'cleaner_range stop without half step', 'C02-D5', (CALC, 'numpy.arange(start, end + d / 2, d) / scale', 'numpy.arange(start, end, d) / scale'))
M('C02', 'cleaner_range stop 2 steps', 'C02-D5', (CALC, 'numpy.arange(start, end + d / 2, d) / scale', 'numpy.arange(start, end + 2 * d, d) / scale'))
M('C02', 'cleaner_range float arange', 'C02-D5', (CALC, 'return numpy.arange(start, end + d / 2, d) / scale', 'return numpy.arange(start / scale, (end + d / 2) / scale, h)'))
M('C02', 'magnitude_bins swaps args', 'C02-D5', (REG, 'return cleaner_range(start_magnitude, end_magnitude, dmw)', 'return cleaner_range(end_magnitude, start_magnitude, dmw)'))
E('C02', 'clamp comparator as integer set', (CALC, 'idx[idx >= len(bins) - 1] = len(bins) - 1', 'idx[idx > len(bins) - 2] = len(bins) - 1'))
E('C02', 'clamp from len(bins)', (CALC, 'idx[idx >= len(bins) - 1] = len(bins) - 1', 'idx[idx >= len(bins)] = len(bins) - 1'))
E('C02', 'stop one full step', (CALC, 'numpy.arange(start, end + d / 2, d) / scale', 'numpy.arange(start, end + d, d) / scale'))
E('C02', 'tol ifexp', (CALC, 'p_tol = tol or _get_tolerance(p)', 'p_tol = _get_tolerance(p) if tol is None else tol'))
E('C02', 'rename temporaries', (CALC, 'a0_tol = _get_tolerance(a0)\n    h_tol = a0_tol', 'origin_tol = _get_tolerance(a0)\n    a0_tol = origin_tol\n    h_tol = origin_tol'))
E('C02', 'closed test as two stores', (CALC, '        idx[(idx < 0) | (idx >= len(bins))] = -1', '        idx[idx >= len(bins)] = -1\n        idx[idx < 0] = -1'))
E('C02', 'positional right_continuous', (CAT, 'idx = bin1d_vec(self.get_magnitudes(), mag_bins, tol=tol, right_continuous=True)', 'idx = bin1d_vec(self.get_magnitudes(), mag_bins, tol, True)'))
E('C02', 'rint for round', (CALC, 'start = numpy.round(scale * start)', 'start = numpy.rint(scale * start)'))

# ------------------------------------------------------------------------------------------------ C09
M('C09', 'GE searchsorted right', 'C09-D2', (STA, 'return eyc[numpy.searchsorted(ex, val)]', "return eyc[numpy.searchsorted(ex, val, side='right')]"))
M('C09', 'LE lost -1', 'C09-D2', (STA, "return ey[numpy.searchsorted(ex, val, side='right') - 1]", "return ey[numpy.searchsorted(ex, val, side='right')]"))
M('C09', 'LE side left', 'C09-D2', (STA, "return ey[numpy.searchsorted(ex, val, side='right') - 1]", "return ey[numpy.searchsorted(ex, val, side='left') - 1]"))
M('C09', 'GE un-reversed', 'C09-D2', (STA, 'eyc = ey[::-1]', 'eyc = ey'))
M('C09', 'GE short-circuit >=', 'C09-D2', (STA, '    if val > ex[-1]:\n        return 0.0', '    if val >= ex[-1]:\n        return 0.0'))
M('C09', 'LE short-circuit <=', 'C09-D2', (STA, '    if val < ex[0]:\n        return 0.0', '    if val <= ex[0]:\n        return 0.0'))
M('C09', 'GE short-circuit removed', 'C09-D2', (STA, '    if val > ex[-1]:\n        return 0.0\n', ''))
M('C09', 'LE lower short-circuit removed', 'C09-D2', (STA, '    if val < ex[0]:\n        return 0.0\n', ''))
M('C09', 'GE short-circuit value swapped', 'C09-D2', (STA, '    if val > ex[-1]:\n        return 0.0\n    if val < ex[0]:\n        return 1.0', '    if val > ex[-1]:\n        return 1.0\n    if val < ex[0]:\n        return 0.0'))
M('C09', 'ecdf ramp from 0', 'C09-D2', (STA, 'ys = numpy.arange(1, len(x) + 1) / float(len(x))', 'ys = numpy.arange(0, len(x)) / float(len(x))'))
M('C09', 'get_quantiles swapped pair', 'C09-D3', (STA, 'return delta_1, delta_2', 'return delta_2, delta_1'))
M('C09', 'get_quantiles swapped args', 'C09-D3', (STA, 'delta_1 = greater_equal_ecdf(sim_counts, obs_count)', 'delta_1 = greater_equal_ecdf(obs_count, sim_counts)'))
M('C09', 'empty guard removed', 'C09-D3', (STA, "    x = numpy.asarray(x)\n    if x.shape[0] == 0:\n        return None\n    if not cdf:\n        ex, ey = ecdf(x)\n    else:\n        ex, ey = cdf\n\n    eyc", "    x = numpy.asarray(x)\n    if not cdf:\n        ex, ey = ecdf(x)\n    else:\n        ex, ey = cdf\n\n    eyc"))
M('C09', 'value arithmetic', 'C09-D1', (STA, "return ey[numpy.searchsorted(ex, val, side='right') - 1]", "return ey[numpy.searchsorted(ex, val + 1e-9, side='right') - 1]"))
M('C09', 'binned uses GE', 'C09-D3', (STA, 'lambda val: less_equal_ecdf(x, val, cdf=(ex, ey))', 'lambda val: greater_equal_ecdf(x, val, cdf=(ex, ey))'))
E('C09', 'GE as 1 - ey[L-1] guarded', (STA, '    return eyc[numpy.searchsorted(ex, val)]', '    return eyc[numpy.searchsorted(ex, val, side=\'left\')]'))
E('C09', 'len for shape', (STA, "    x = numpy.asarray(x)\n    if x.shape[0] == 0:\n        return None\n    if not cdf:\n        ex, ey = ecdf(x)\n    else:\n        ex, ey = cdf\n    # some", "    x = numpy.asarray(x)\n    if len(x) == 0:\n        return None\n    if not cdf:\n        ex, ey = ecdf(x)\n    else:\n        ex, ey = cdf\n    # some"))
E('C09', 'flip for [::-1]', (STA, 'eyc = ey[::-1]', 'eyc = numpy.flip(ey)'))
E('C09', 'ramp without float()', (STA, 'ys = numpy.arange(1, len(x) + 1) / float(len(x))', 'n = len(x)\n    ys = numpy.arange(1, n + 1) / n'))

# ------------------------------------------------------------------------------------------------ C07
M('C07', 'delta1 without -eps', 'C07-D1', (POI, 'delta1 = 1.0 - scipy.stats.poisson.cdf(obs_cnt - epsilon, fore_cnt)', 'delta1 = 1.0 - scipy.stats.poisson.cdf(obs_cnt, fore_cnt)'))
M('C07', 'delta2 minus eps', 'C07-D1', (POI, 'delta2 = scipy.stats.poisson.cdf(obs_cnt + epsilon, fore_cnt)', 'delta2 = scipy.stats.poisson.cdf(obs_cnt - epsilon, fore_cnt)'))
M('C07', 'delta1 complement lost', 'C07-D1', (POI, 'delta1 = 1.0 - scipy.stats.poisson.cdf(obs_cnt - epsilon, fore_cnt)', 'delta1 = scipy.stats.poisson.cdf(obs_cnt - epsilon, fore_cnt)'))
M('C07', 'deltas swapped in return', 'C07-D1', (POI, '    return delta1, delta2\n\n\ndef _t_test', '    return delta2, delta1\n\n\ndef _t_test'))
M('C07', 'epsilon = 1.0 at call', 'C07-D1', (POI, '    epsilon = 1e-6\n\n    # stores the actual result of the number test\n    delta1, delta2 = _number_test_ndarray', '    epsilon = 1.0\n\n    # stores the actual result of the number test\n    delta1, delta2 = _number_test_ndarray'))
M('C07', 'args swapped at call', 'C07-D1', (POI, '_number_test_ndarray(fore_cnt, obs_cnt, epsilon=epsilon)', '_number_test_ndarray(obs_cnt, fore_cnt, epsilon=epsilon)'))
M('C07', 'quantile swapped', 'C07-D1', (POI, "    result.name = 'Poisson N-Test'\n    result.observed_statistic = obs_cnt\n    result.quantile = (delta1, delta2)", "    result.name = 'Poisson N-Test'\n    result.observed_statistic = obs_cnt\n    result.quantile = (delta2, delta1)"))
M('C07', 'mu and k swapped', 'C07-D1', (POI, 'delta2 = scipy.stats.poisson.cdf(obs_cnt + epsilon, fore_cnt)', 'delta2 = scipy.stats.poisson.cdf(fore_cnt, obs_cnt + epsilon)'))
M('C07', 'nbd tau/upsilon swapped', 'C07-D2', (BIN, 'delta2 = scipy.stats.nbinom.cdf(obs_cnt + epsilon, tau, upsilon, loc=0)', 'delta2 = scipy.stats.nbinom.cdf(obs_cnt + epsilon, upsilon, tau, loc=0)'))
M('C07', 'nbd upsilon complement lost', 'C07-D2', (BIN, 'upsilon = 1.0 - ((var - mean) / var)', 'upsilon = ((var - mean) / var)'))
M('C07', 'nbd tau denominator', 'C07-D2', (BIN, 'tau = (mean**2 /(var - mean))', 'tau = (mean**2 /(var + mean))'))
M('C07', 'nbd tau mean not squared', 'C07-D2', (BIN, 'tau = (mean**2 /(var - mean))', 'tau = (mean /(var - mean))'))
M('C07', 'nbd delta1 without -eps', 'C07-D2', (BIN, 'delta1 = 1.0 - scipy.stats.nbinom.cdf(obs_cnt - epsilon, tau, upsilon, loc=0)', 'delta1 = 1.0 - scipy.stats.nbinom.cdf(obs_cnt, tau, upsilon, loc=0)'))
M('C07', 'catalog get_quantiles swapped', 'C07-D3', (CEV, 'delta_1, delta_2 = get_quantiles(event_counts, obs_count)', 'delta_1, delta_2 = get_quantiles(obs_count, event_counts)'))
M('C07', 'catalog quantile swapped', 'C07-D3', (CEV, "                                     observed_statistic=obs_count,\n                                     quantile=(delta_1, delta_2),", "                                     observed_statistic=obs_count,\n                                     quantile=(delta_2, delta_1),"))
M('C07', 'catalog skips empty catalogs', 'C07-D3', (CEV, '        event_counts.append(catalog.event_count)\n    obs_count', '        if catalog.event_count > 0:\n            event_counts.append(catalog.event_count)\n    obs_count'))
E('C07', 'upsilon as mean/var', (BIN, 'upsilon = 1.0 - ((var - mean) / var)', 'upsilon = mean / var'))
E('C07', 'tau with product', (BIN, 'tau = (mean**2 /(var - mean))', 'tau = mean * mean / (var - mean)'))
E('C07', 'delta1 exact integer form', (POI, 'delta1 = 1.0 - scipy.stats.poisson.cdf(obs_cnt - epsilon, fore_cnt)', 'delta1 = 1.0 - scipy.stats.poisson.cdf(obs_cnt - 1, fore_cnt)'))
E('C07', 'delta1 via sf', (POI, 'delta1 = 1.0 - scipy.stats.poisson.cdf(obs_cnt - epsilon, fore_cnt)', 'delta1 = scipy.stats.poisson.sf(obs_cnt - epsilon, fore_cnt)'))
E('C07', 'kw mu', (POI, 'delta2 = scipy.stats.poisson.cdf(obs_cnt + epsilon, fore_cnt)', 'delta2 = scipy.stats.poisson.cdf(obs_cnt + epsilon, mu=fore_cnt)'))

# ------------------------------------------------------------------------------------------------ C08
M('C08', 'np import removed', 'G-UNDEF', (BIN, 'import numpy as np\n', ''))
M('C08', 'find_repeats back', 'G-API', (POI, '    _, repcounts = numpy.unique(r, return_counts=True)\n    repnum = repcounts[repcounts > 1]\n', '    replist, repnum = scipy.stats.find_repeats(r)\n'))
M('C08', 'N2 - N1', 'C08-D3', (POI, 'information_gain = (numpy.sum(X1 - X2) - (N1 - N2)) / N\n\n    # Compute variance of (X1-X2) using Equation (18)  of Rhoades et al. 2011\n    first_term = (numpy.sum(numpy.power((X1 - X2), 2))) / (N - 1)', 'information_gain = (numpy.sum(X1 - X2) - (N2 - N1)) / N\n\n    # Compute variance of (X1-X2) using Equation (18)  of Rhoades et al. 2011\n    first_term = (numpy.sum(numpy.power((X1 - X2), 2))) / (N - 1)'))
M('C08', 'variance with N', 'C08-D3', (POI, 'first_term = (numpy.sum(numpy.power((X1 - X2), 2))) / (N - 1)\n    second_term = numpy.power(numpy.sum(X1 - X2), 2) / (numpy.power(N, 2) - N)\n    forecast_variance = first_term - second_term\n\n    forecast_std = numpy.sqrt(forecast_variance)\n    t_statistic = information_gain / (forecast_std / numpy.sqrt(N))\n\n    # Obtaining the Critical Value of T from T distribution.\n    df = N - 1\n    t_critical = scipy.stats.t.ppf(1 - (alpha / 2),\n', 'first_term = (numpy.sum(numpy.power((X1 - X2), 2))) / N\n    second_term = numpy.power(numpy.sum(X1 - X2), 2) / (numpy.power(N, 2) - N)\n    forecast_variance = first_term - second_term\n\n    forecast_std = numpy.sqrt(forecast_variance)\n    t_statistic = information_gain / (forecast_std / numpy.sqrt(N))\n\n    # Obtaining the Critical Value of T from T distribution.\n    df = N - 1\n    t_critical = scipy.stats.t.ppf(1 - (alpha / 2),\n'))
M('C08', 'ig_upper = gain - ...', 'C08-D2', (POI, 'ig_upper = information_gain + (t_critical * forecast_std / numpy.sqrt(N))\n\n    # If T value greater than T critical, Then both Lower and Upper Confidence Interval limits will be greater than Zero.\n    # If above Happens, Then It means that Forecasting Model 1 is better than Forecasting Model 2.\n    return {\'t_statistic\': t_statistic,\n            \'t_critical\': t_critical,\n            \'information_gain\': information_gain,\n            \'ig_lower\': ig_lower,\n            \'ig_upper\': ig_upper}\n\n\ndef _w_test', 'ig_upper = information_gain - (t_critical * forecast_std / numpy.sqrt(N))\n\n    # If T value greater than T critical, Then both Lower and Upper Confidence Interval limits will be greater than Zero.\n    # If above Happens, Then It means that Forecasting Model 1 is better than Forecasting Model 2.\n    return {\'t_statistic\': t_statistic,\n            \'t_critical\': t_critical,\n            \'information_gain\': information_gain,\n            \'ig_lower\': ig_lower,\n            \'ig_upper\': ig_upper}\n\n\ndef _w_test'))
M('C08', 'alpha not halved', 'C08-D3', (POI, 't_critical = scipy.stats.t.ppf(1 - (alpha / 2),\n                                   df)', 't_critical = scipy.stats.t.ppf(1 - alpha,\n                                   df)'))
M('C08', 'gain divisor N-1', 'C08-D3', (POI, 'information_gain = (numpy.sum(X1 - X2) - (N1 - N2)) / N\n\n    # Compute variance of (X1-X2) using Equation (18)  of Rhoades et al. 2011\n    first_term = (numpy.sum(numpy.power((X1 - X2), 2))) / (N - 1)\n    second_term = numpy.power(numpy.sum(X1 - X2), 2) / (numpy.power(N, 2) - N)\n    forecast_variance = first_term - second_term\n\n    forecast_std = numpy.sqrt(forecast_variance)\n    t_statistic = information_gain / (forecast_std / numpy.sqrt(N))\n\n    # Obtaining the Critical Value of T from T distribution.\n    df = N - 1\n    t_critical = scipy.stats.t.ppf(1 - (alpha / 2),\n', 'information_gain = (numpy.sum(X1 - X2) - (N1 - N2)) / (N - 1)\n\n    # Compute variance of (X1-X2) using Equation (18)  of Rhoades et al. 2011\n    first_term = (numpy.sum(numpy.power((X1 - X2), 2))) / (N - 1)\n    second_term = numpy.power(numpy.sum(X1 - X2), 2) / (numpy.power(N, 2) - N)\n    forecast_variance = first_term - second_term\n\n    forecast_std = numpy.sqrt(forecast_variance)\n    t_statistic = information_gain / (forecast_std / numpy.sqrt(N))\n\n    # Obtaining the Critical Value of T from T distribution.\n    df = N - 1\n    t_critical = scipy.stats.t.ppf(1 - (alpha / 2),\n'))
M('C08', 'binary gain divided by events', 'C08-D3', (BIN, '    information_gain = (numpy.sum(X1 - X2) - (N1 - N2)) / N\n', '    information_gain = (numpy.sum(X1 - X2) - (N1 - N2)) / N_p\n'))
M('C08', 'W abs dropped in ranks', 'C08-D', (POI, 'r = scipy.stats.rankdata(abs(d))', 'r = scipy.stats.rankdata(d)'))
M('C08', 'W max for min', 'C08-D3', (POI, 't = min(r_plus, r_minus)', 't = max(r_plus, r_minus)'))
M('C08', 'W one-sided p', 'C08-D3', (POI, 'prob = 2. * scipy.stats.distributions.norm.sf(abs(z))', 'prob = scipy.stats.distributions.norm.sf(abs(z))'))
M('C08', 'W p without abs', 'C08-D', (POI, 'prob = 2. * scipy.stats.distributions.norm.sf(abs(z))', 'prob = 2. * scipy.stats.distributions.norm.sf(z)'))
M('C08', 'W r_plus >=', 'C08-D', (POI, 'r_plus = numpy.sum((d > 0) * r, axis=0)', 'r_plus = numpy.sum((d >= 0) * r, axis=0)'))
M('C08', 'W tie correction factor', 'C08-D3', (POI, 'se -= 0.5 * (repnum * (repnum * repnum - 1)).sum()', 'se -= (repnum * (repnum * repnum - 1)).sum()'))
M('C08', 'W ordinal ranks', 'C08-D3', (POI, 'r = scipy.stats.rankdata(abs(d))', 'r = numpy.argsort(numpy.argsort(abs(d))) + 1.'))
M('C08', 'W median swapped', 'C08-D4', (POI, 'median_value = (N1 - N2) / N', 'median_value = (N2 - N1) / N'))
M('C08', 'T scale dropped for benchmark', 'C08-D4', (POI, '    target_event_rate_forecast2, n_fore2 = benchmark_forecast.target_event_rates(\n        observed_catalog, scale=scale)\n\n    # call the primative', '    target_event_rate_forecast2, n_fore2 = benchmark_forecast.target_event_rates(\n        observed_catalog)\n\n    # call the primative'))
M('C08', 'T totals swapped at call', 'C08-D4', (POI, 'n_fore1, n_fore2, alpha=alpha)', 'n_fore2, n_fore1, alpha=alpha)'))
M('C08', 'T slots swapped', 'C08-D4', (POI, "result.test_distribution = (out['ig_lower'], out['ig_upper'])\n    result.observed_statistic = out['information_gain']\n    result.quantile = (out['t_statistic'], out['t_critical'])\n    result.sim_name = (forecast.name, benchmark_forecast.name)\n    result.obs_name = observed_catalog.name\n    result.status = 'normal'\n    result.min_mw = numpy.min(forecast.magnitudes)", "result.test_distribution = (out['ig_upper'], out['ig_lower'])\n    result.observed_statistic = out['information_gain']\n    result.quantile = (out['t_statistic'], out['t_critical'])\n    result.sim_name = (forecast.name, benchmark_forecast.name)\n    result.obs_name = observed_catalog.name\n    result.status = 'normal'\n    result.min_mw = numpy.min(forecast.magnitudes)"))
E('C08', 'square for power', (POI, 'first_term = (numpy.sum(numpy.power((X1 - X2), 2))) / (N - 1)\n    second_term = numpy.power(numpy.sum(X1 - X2), 2) / (numpy.power(N, 2) - N)\n    forecast_variance = first_term - second_term\n\n    forecast_std = numpy.sqrt(forecast_variance)\n    t_statistic = information_gain / (forecast_std / numpy.sqrt(N))\n\n    # Obtaining the Critical Value of T from T distribution.\n    df = N - 1\n    t_critical = scipy.stats.t.ppf(1 - (alpha / 2),\n', 'first_term = (numpy.sum(numpy.square(X1 - X2))) / (N - 1)\n    second_term = numpy.sum(X1 - X2) ** 2 / (N * (N - 1))\n    forecast_variance = first_term - second_term\n\n    forecast_std = numpy.sqrt(forecast_variance)\n    t_statistic = information_gain / (forecast_std / numpy.sqrt(N))\n\n    # Obtaining the Critical Value of T from T distribution.\n    df = N - 1\n    t_critical = scipy.stats.t.ppf(1 - (alpha / 2),\n'))
E('C08', 'sum of differences split', (POI, 'information_gain = (numpy.sum(X1 - X2) - (N1 - N2)) / N\n\n    # Compute variance of (X1-X2) using Equation (18)  of Rhoades et al. 2011\n    first_term = (numpy.sum(numpy.power((X1 - X2), 2))) / (N - 1)', 'information_gain = (numpy.sum(X1) - numpy.sum(X2) - N1 + N2) / N\n\n    # Compute variance of (X1-X2) using Equation (18)  of Rhoades et al. 2011\n    first_term = (numpy.sum(numpy.power((X1 - X2), 2))) / (N - 1)'))
E('C08', 'W min args swapped', (POI, 't = min(r_plus, r_minus)', 't = min(r_minus, r_plus)'))
M('C02', 'point tolerance from origin', 'C02-D2', (CALC, 'p_tol = tol or _get_tolerance(p)', 'p_tol = tol or a0_tol'))

# ------------------------------------------------------------------------------------------------ C06
M('C06', 'default side (poisson)', 'C06-D3', (POI, "pnts = numpy.searchsorted(sampling_weights, random_numbers, side='right')", "pnts = numpy.searchsorted(sampling_weights, random_numbers)"))
M('C06', 'side left (brier loop)', 'C06-D3', (BRI, "loc = numpy.searchsorted(sampling_weights, random_num,\n                                     side='right')", "loc = numpy.searchsorted(sampling_weights, random_num,\n                                     side='left')"))
M('C06', 'if seed: (poisson)', 'C06-D1', (POI, '    if seed is not None:\n        numpy.random.seed(seed)', '    if seed:\n        numpy.random.seed(seed)'))
M('C06', 'if seed: (MLL)', 'C06-D1', (CEV, '    # set seed\n    if seed is not None:\n        numpy.random.seed(seed)\n\n    test_distribution = []', '    # set seed\n    if seed:\n        numpy.random.seed(seed)\n\n    test_distribution = []'))
M('C06', 'seed() without arg', 'C06-D1', (BIN, '    if seed is not None:\n        numpy.random.seed(seed)', '    if seed is not None:\n        numpy.random.seed()'))
M('C06', 'seed constant', 'C06-D1', (BRI, '    if seed is not None:\n        numpy.random.seed(seed)', '    if seed is not None:\n        numpy.random.seed(42)'))
M('C06', 'seeding after the loop', 'C06-D1', (BRI, '    # set seed for the likelihood test\n    if seed is not None:\n        numpy.random.seed(seed)\n', ''), (BRI, '    obs_brier = _brier_score_ndarray(forecast_data.data, observed_data)\n', '    if seed is not None:\n        numpy.random.seed(seed)\n    obs_brier = _brier_score_ndarray(forecast_data.data, observed_data)\n'))
M('C06', 'seed not forwarded', 'C06-D1', (POI, '        gridded_forecast.spatial_counts(), gridded_catalog_data,\n        num_simulations=num_simulations,\n        seed=seed,', '        gridded_forecast.spatial_counts(), gridded_catalog_data,\n        num_simulations=num_simulations,\n        seed=None,'))
M('C06', 'normalise by sum (poisson)', 'C06-D4', (POI, '    sampling_weights = numpy.cumsum(forecast_data.ravel())\n    sampling_weights = sampling_weights / sampling_weights[-1]', '    sampling_weights = numpy.cumsum(forecast_data.ravel()) / numpy.sum(forecast_data)'))
M('C06', 'masked weights (binary)', 'C06-D5', (BIN, 'sampling_weights = numpy.cumsum(forecast_data.filled(0.0).ravel())', 'sampling_weights = numpy.cumsum(forecast_data.ravel())'))
M('C06', 'drop fill(0) (poisson)', 'C06-D6', (POI, '    sim_fore.fill(0)\n', ''))
M('C06', 'reset only on one path (binary)', 'C06-D6', (BIN, "    # Reset simulation array to zero, but don't reallocate\n    sim_fore.fill(0)\n    if random_numbers is None:\n        num_active_cells = 0", "    if random_numbers is None:\n        # Reset simulation array to zero, but don't reallocate\n        sim_fore.fill(0)\n        num_active_cells = 0"))
M('C06', 'quantile <', 'C06-D8', (POI, 'qs = numpy.sum(simulated_ll <= obs_ll) / num_simulations', 'qs = numpy.sum(simulated_ll < obs_ll) / num_simulations'))
M('C06', 'quantile divisor +1', 'C06-D8', (BIN, 'qs = numpy.sum(simulated_ll <= obs_ll) / num_simulations', 'qs = numpy.sum(simulated_ll <= obs_ll) / (num_simulations + 1)'))
M('C06', 'quantile reversed', 'C06-D8', (BRI, 'qs = numpy.sum(simulated_brier <= obs_brier) / num_simulations', 'qs = numpy.sum(obs_brier <= simulated_brier) / num_simulations'))
M('C06', 'poisson count in CL', 'C06-D7', (POI, '        if use_observed_counts:\n            num_events_to_simulate = int(n_obs)\n        else:', '        if not use_observed_counts:\n            num_events_to_simulate = int(n_obs)\n        else:'))
M('C06', 'n_fore events', 'C06-D7', (POI, '        if use_observed_counts:\n            num_events_to_simulate = int(n_obs)', '        if use_observed_counts:\n            num_events_to_simulate = int(n_fore)'))
M('C06', 'rejection loop without ==0 test', 'C06-D7', (BIN, '            if sim_fore[loc] == 0:\n               sim_fore[loc] = 1\n               num_active_cells = num_active_cells + 1', '            sim_fore[loc] = 1\n            num_active_cells = num_active_cells + 1'))
M('C06', 'assertion dropped', 'C06-D7', (BRI, '    assert sim_fore.sum() == sim_cells, "simulated the wrong number of events!"\n', ''))
M('C06', 'python random', 'C06-D2', (BRI, 'random_num = numpy.random.uniform(0,1)', 'random_num = numpy.random.default_rng().uniform(0,1)'))
M('C06', 'active cells = events', 'C06-D7', (BIN, 'n_active_cells = len(numpy.unique(numpy.nonzero(observed_data.ravel())))', 'n_active_cells = int(numpy.sum(observed_data))'))
E('C06', 'positional right', (POI, "pnts = numpy.searchsorted(sampling_weights, random_numbers, side='right')", "pnts = numpy.searchsorted(sampling_weights, random_numbers, 'right')"))
E('C06', 'normalise by max', (POI, 'sampling_weights = sampling_weights / sampling_weights[-1]', 'sampling_weights = sampling_weights / sampling_weights.max()'))
E('C06', 'seed != None', (POI, '    if seed is not None:\n        numpy.random.seed(seed)', '    if seed != None:\n        numpy.random.seed(seed)'))
E('C06', 'one-line weights', (BRI, '    sampling_weights = numpy.cumsum(forecast_data.filled(0.0).ravel())\n    sampling_weights = sampling_weights / sampling_weights[-1]', '    cumulative = numpy.cumsum(forecast_data.filled(0.0).ravel())\n    sampling_weights = cumulative / cumulative[-1]'))

# ------------------------------------------------------------------------------------------------ C16
M('C16', 'counts instead of indicator (brier)', 'C16-D', (BRI, 'brier_cell = np.square(prob_success.ravel() - (observations.ravel() > 0))', 'brier_cell = np.square(prob_success.ravel() - observations.ravel())'))
M('C16', 'brier sign', 'C16-D3', (BRI, 'brier = -2 * brier_cell.sum()', 'brier = 2 * brier_cell.sum()'))
M('C16', 'brier divide by shape[0] only', 'C16-D3', (BRI, '    for n_dim in observations.shape:\n        brier /= n_dim', '    brier /= observations.shape[0]'))
M('C16', 'brier prob of zero', 'C16-D3', (BRI, 'prob_success = 1 - poisson.cdf(0, forecast)', 'prob_success = poisson.cdf(0, forecast)'))
M('C16', 'binary active uses counts', 'C16-D', (BIN, "        first_term = numpy.log(1.0 - numpy.exp(-rates[active]))", "        first_term = numpy.asarray(catalog).ravel()[active] * numpy.log(1.0 - numpy.exp(-rates[active]))"))
M('C16', 'binary second term sign', 'C16-D3', (BIN, '    second_term = -rates[~active]', '    second_term = rates[~active]'))
M('C16', 'binary inactive over all bins', 'C16-D3', (BIN, '    second_term = -rates[~active]', '    second_term = -rates'))
M('C16', 'binary masked .data of product', 'C16-D', (BIN, '    rates = numpy.asarray(forecast, dtype=float).ravel()\n    active = numpy.asarray(catalog).ravel() > 0\n', '    rates = numpy.asarray(forecast, dtype=float).ravel()\n    active = numpy.asarray(catalog).ravel() > 0\n    masked = numpy.ma.masked_where(rates <= 0.0, rates)\n    rates = (1.0 * masked).data\n'))
M('C16', 'simulated score other callee', 'C16-D4', (BRI, '        current_brier = _brier_score_ndarray(forecast_data.data, sim_fore)', '        current_brier = -2 * numpy.mean(numpy.square(1 - numpy.exp(-forecast_data.data.ravel()) - sim_fore.ravel()))'))
M('C16', 'masked forecast into kernel', 'C16-D1', (BRI, '    obs_brier = _brier_score_ndarray(forecast_data.data, observed_data)', '    obs_brier = _brier_score_ndarray(forecast_data, observed_data)'))
M('C16', 'observed score from simulation', 'C16-D4', (BIN, '    obs_ll = binary_joint_log_likelihood_ndarray(forecast_data.data, observed_data)', '    obs_ll = binary_joint_log_likelihood_ndarray(forecast_data.data, sim_fore)'))
M('C16', 'binary S-test passes full data', 'C16-D4', (BIN, '    qs, obs_ll, simulated_ll = _binary_likelihood_test(\n        gridded_forecast.spatial_counts(),', '    qs, obs_ll, simulated_ll = _binary_likelihood_test(\n        gridded_forecast.data,'))
M('C16', 'bill scale inverted', 'C16-D3', (POI, '    scale = catalog.event_count / forecast.event_count\n    target_idx', '    scale = forecast.event_count / catalog.event_count\n    target_idx'))
E('C16', 'brier via exp', (BRI, 'prob_success = 1 - poisson.cdf(0, forecast)', 'prob_success = 1 - numpy.exp(-forecast)'))
E('C16', 'brier != 0', (BRI, '(observations.ravel() > 0)', '(observations.ravel() != 0)'))
E('C16', 'brier divide by size', (BRI, '    for n_dim in observations.shape:\n        brier /= n_dim', '    brier /= observations.size'))
E('C16', 'binary expm1-free reorder', (BIN, '    return numpy.sum(first_term) + numpy.sum(second_term)', '    return numpy.sum(second_term) + numpy.sum(first_term)'))
