"""Seeded variants for checker self-validation. kind 'M' = behaviour-breaking edit that must be reported under
the clause prefix `expect`; kind 'E' = behaviour-preserving edit that must stay silent."""
VARIANTS = []


def M(pid, name, expect, *edits):
    VARIANTS.append({'pid': pid, 'kind': 'M', 'name': name, 'expect': expect, 'edits': list(edits)})


def E(pid, name, *edits, **kw):
    VARIANTS.append({'pid': pid, 'kind': 'E', 'name': name, 'expect': None, 'edits': list(edits), **kw})


CALC = 'csep/utils/calc.py'
REG = 'csep/core/regions.py'
CAT = 'csep/core/catalogs.py'
FOR = 'csep/core/forecasts.py'
POI = 'csep/core/poisson_evaluations.py'
BIN = 'csep/core/binomial_evaluations.py'
BRI = 'csep/core/brier_evaluations.py'
CEV = 'csep/core/catalog_evaluations.py'
STA = 'csep/utils/stats.py'
TIM = 'csep/utils/time_utils.py'
RDR = 'csep/utils/readers.py'
MOD = 'csep/models.py'
INI = 'csep/__init__.py'
REP = 'csep/core/repositories.py'

# ------------------------------------------------------------------------------------------------ C02
M('C02', 'floor->rint', 'C02-D1', (CALC, 'idx = numpy.floor((p', 'idx = numpy.rint((p'))
M('C02', 'floor->trunc', 'C02-D1', (CALC, 'idx = numpy.floor((p', 'idx = numpy.trunc((p'))
M('C02', 'round inside floor', 'C02-D1', (CALC, 'numpy.floor((p - a0 + p_tol + a0_tol) / (h - h_tol))', 'numpy.floor(numpy.round((p - a0 + p_tol + a0_tol) / (h - h_tol), 9))'))
M('C02', 'h - h_tol -> h + h_tol', 'C02-D2', (CALC, '/ (h - h_tol))', '/ (h + h_tol))'))
M('C02', 'h_tol dropped', 'C02-D2', (CALC, '/ (h - h_tol))', '/ h)'))
M('C02', '+p_tol -> -p_tol', 'C02-D2', (CALC, 'p - a0 + p_tol + a0_tol', 'p - a0 - p_tol + a0_tol'))
M('C02', 'a0_tol dropped', 'C02-D2', (CALC, 'p - a0 + p_tol + a0_tol', 'p - a0 + p_tol'))
M('C02', 'abs dropped in tolerance', 'C02-D2', (CALC, 'return numpy.abs(v) * numpy.finfo(v.dtype).eps', 'return v * numpy.finfo(v.dtype).eps'))
M('C02', 'eps dropped in tolerance', 'C02-D2', (CALC, 'return numpy.abs(v) * numpy.finfo(v.dtype).eps', 'return numpy.abs(v) * 1e-3'))
M('C02', 'clamp to len(bins)', 'C02-D3', (CALC, 'idx[idx >= len(bins) - 1] = len(bins) - 1', 'idx[idx >= len(bins) - 1] = len(bins)'))
M('C02', 'clamp from len(bins)-2', 'C02-D3', (CALC, 'idx[idx >= len(bins) - 1] = len(bins) - 1', 'idx[idx >= len(bins) - 2] = len(bins) - 1'))
M('C02', 'below-range -> 0 in open mode', 'C02-D3', (CALC, '        idx[idx < 0] = -1\n', '        idx[idx < 0] = 0\n'))
M('C02', 'closed upper bound off by one', 'C02-D3', (CALC, 'idx[(idx < 0) | (idx >= len(bins))] = -1', 'idx[(idx < 0) | (idx > len(bins))] = -1'))
M('C02', 'closed lower bound <=0', 'C02-D3', (CALC, 'idx[(idx < 0) | (idx >= len(bins))] = -1', 'idx[(idx <= 0) | (idx >= len(bins))] = -1'))
M('C02', 'closed upper test dropped', 'C02-D3', (CALC, 'idx[(idx < 0) | (idx >= len(bins))] = -1', 'idx[idx < 0] = -1'))
M('C02', 'single-edge not forced open', 'C02-D3', (CALC, "        right_continuous = True\n        h = 1.", "        h = 1."))
M('C02', 'negative spacing accepted', 'C02-D3', (CALC, '    if h < 0:\n        raise ValueError("grid spacing must be positive and monotonically increasing.")\n', ''))
M('C02', 'magnitude_counts drops right_continuous', 'C02-D4', (CAT, 'idx = bin1d_vec(self.get_magnitudes(), mag_bins, tol=tol, right_continuous=True)', 'idx = bin1d_vec(self.get_magnitudes(), mag_bins, tol=tol)'))
M('C02', 'get_magnitude_index drops right_continuous', 'C02-D4', (FOR, 'idm = bin1d_vec(mags, self.magnitudes, tol=tol, right_continuous=True)', 'idm = bin1d_vec(mags, self.magnitudes, tol=tol)'))
M('C02', 'coordinate call right_continuous', 'C02-D4', (REG, '        idx = bin1d_vec(lons, self.xs)\n        idy = bin1d_vec(lats, self.ys)\n        if numpy.any(idx == -1)', '        idx = bin1d_vec(lons, self.xs, right_continuous=True)\n        idy = bin1d_vec(lats, self.ys)\n        if numpy.any(idx == -1)'))
M('C02', 'cleaner_range round->floor', 'C02-D5', (CALC, 'start = numpy.round(scale * start)', 'start = numpy.floor(scale * start)'))
M('C02', 'cleaner_range end not rounded', 'C02-D5', (CALC, 'end = numpy.round(scale * end)', 'end = scale * end'))
M('C02', 'cleaner_range stop without half step', 'C02-D5', (CALC, 'numpy.arange(start, end + d / 2, d) / scale', 'numpy.arange(start, end, d) / scale'))
M('C02', 'cleaner_range stop 2 steps', 'C02-D5', (CALC, 'numpy.arange(start, end + d / 2, d) / scale', 'numpy.arange(start, end + 2 * d, d) / scale'))
M('C02', 'cleaner_range float arange', 'C02-D5', (CALC, 'return numpy.arange(start, end + d / 2, d) / scale', 'return numpy.arange(start / scale, (end + d / 2) / scale, h)'))
M('C02', 'magnitude_bins swaps args', 'C02-D5', (REG, 'return cleaner_range(start_magnitude, end_magnitude, dmw)', 'return cleaner_range(end_magnitude, start_magnitude, dmw)'))
E('C02', 'clamp comparator as integer set', (CALC, 'idx[idx >= len(bins) - 1] = len(bins) - 1', 'idx[idx > len(bins) - 2] = len(bins) - 1'))
E('C02', 'clamp from len(bins)', (CALC, 'idx[idx >= len(bins) - 1] = len(bins) - 1', 'idx[idx >= len(bins)] = len(bins) - 1'))
E('C02', 'stop one full step', (CALC, 'numpy.arange(start, end + d / 2, d) / scale', 'numpy.arange(start, end + d, d) / scale'))
E('C02', 'tol ifexp', (CALC, 'p_tol = tol or _get_tolerance(p)', 'p_tol = _get_tolerance(p) if tol is None else tol'))
E('C02', 'rename temporaries', (CALC, 'a0_tol = _get_tolerance(a0)\n    h_tol = a0_tol', 'origin_tol = _get_tolerance(a0)\n    a0_tol = origin_tol\n    h_tol = origin_tol'))
E('C02', 'closed test as two stores', (CALC, '        idx[(idx < 0) | (idx >= len(bins))] = -1', '        idx[idx >= len(bins)] = -1\n        idx[idx < 0] = -1'))
E('C02', 'positional right_continuous', (CAT, 'idx = bin1d_vec(self.get_magnitudes(), mag_bins, tol=tol, right_continuous=True)', 'idx = bin1d_vec(self.get_magnitudes(), mag_bins, tol, True)'))
E('C02', 'rint for round', (CALC, 'start = numpy.round(scale * start)', 'start = numpy.rint(scale * start)'))

# ------------------------------------------------------------------------------------------------ C09
M('C09', 'GE searchsorted right', 'C09-D2', (STA, 'return eyc[numpy.searchsorted(ex, val)]', "return eyc[numpy.searchsorted(ex, val, side='right')]"))
M('C09', 'LE lost -1', 'C09-D2', (STA, "return ey[numpy.searchsorted(ex, val, side='right') - 1]", "return ey[numpy.searchsorted(ex, val, side='right')]"))
M('C09', 'LE side left', 'C09-D2', (STA, "return ey[numpy.searchsorted(ex, val, side='right') - 1]", "return ey[numpy.searchsorted(ex, val, side='left') - 1]"))
M('C09', 'GE un-reversed', 'C09-D2', (STA, 'eyc = ey[::-1]', 'eyc = ey'))
M('C09', 'GE short-circuit >=', 'C09-D2', (STA, '    if val > ex[-1]:\n        return 0.0', '    if val >= ex[-1]:\n        return 0.0'))
M('C09', 'LE short-circuit <=', 'C09-D2', (STA, '    if val < ex[0]:\n        return 0.0', '    if val <= ex[0]:\n        return 0.0'))
M('C09', 'GE short-circuit removed', 'C09-D2', (STA, '    if val > ex[-1]:\n        return 0.0\n', ''))
M('C09', 'LE lower short-circuit removed', 'C09-D2', (STA, '    if val < ex[0]:\n        return 0.0\n', ''))
M('C09', 'GE short-circuit value swapped', 'C09-D2', (STA, '    if val > ex[-1]:\n        return 0.0\n    if val < ex[0]:\n        return 1.0', '    if val > ex[-1]:\n        return 1.0\n    if val < ex[0]:\n        return 0.0'))
M('C09', 'ecdf ramp from 0', 'C09-D2', (STA, 'ys = numpy.arange(1, len(x) + 1) / float(len(x))', 'ys = numpy.arange(0, len(x)) / float(len(x))'))
M('C09', 'get_quantiles swapped pair', 'C09-D3', (STA, 'return delta_1, delta_2', 'return delta_2, delta_1'))
M('C09', 'get_quantiles swapped args', 'C09-D3', (STA, 'delta_1 = greater_equal_ecdf(sim_counts, obs_count)', 'delta_1 = greater_equal_ecdf(obs_count, sim_counts)'))
M('C09', 'empty guard removed', 'C09-D3', (STA, "    x = numpy.asarray(x)\n    if x.shape[0] == 0:\n        return None\n    if not cdf:\n        ex, ey = ecdf(x)\n    else:\n        ex, ey = cdf\n\n    eyc", "    x = numpy.asarray(x)\n    if not cdf:\n        ex, ey = ecdf(x)\n    else:\n        ex, ey = cdf\n\n    eyc"))
M('C09', 'value arithmetic', 'C09-D1', (STA, "return ey[numpy.searchsorted(ex, val, side='right') - 1]", "return ey[numpy.searchsorted(ex, val + 1e-9, side='right') - 1]"))
M('C09', 'binned uses GE', 'C09-D3', (STA, 'lambda val: less_equal_ecdf(x, val, cdf=(ex, ey))', 'lambda val: greater_equal_ecdf(x, val, cdf=(ex, ey))'))
E('C09', 'GE as 1 - ey[L-1] guarded', (STA, '    return eyc[numpy.searchsorted(ex, val)]', '    return eyc[numpy.searchsorted(ex, val, side=\'left\')]'))
E('C09', 'len for shape', (STA, "    x = numpy.asarray(x)\n    if x.shape[0] == 0:\n        return None\n    if not cdf:\n        ex, ey = ecdf(x)\n    else:\n        ex, ey = cdf\n    # some", "    x = numpy.asarray(x)\n    if len(x) == 0:\n        return None\n    if not cdf:\n        ex, ey = ecdf(x)\n    else:\n        ex, ey = cdf\n    # some"))
E('C09', 'flip for [::-1]', (STA, 'eyc = ey[::-1]', 'eyc = numpy.flip(ey)'))
E('C09', 'ramp without float()', (STA, 'ys = numpy.arange(1, len(x) + 1) / float(len(x))', 'n = len(x)\n    ys = numpy.arange(1, n + 1) / n'))
