"""Checker self-validation (thorough tier): seeded mutants must make the check report the named
clause, behaviour-preserving variants must leave it silent - both judged relative to the verdict on
the current tree.  Every variant is a scratch copy of the package's .py files under a temporary
directory outside /repo and /verif, analysed (never executed) in a worker and deleted afterwards.
"""
import io
import json
import os
import shutil
import sys
import tempfile
import time
from concurrent.futures import ProcessPoolExecutor

from ..core.report import VERIF


def make_copy(repo, dst):
    src = os.path.join(repo, 'csep')
    for dirpath, dirnames, filenames in os.walk(src):
        dirnames[:] = [d for d in dirnames if d not in ('__pycache__', 'artifacts')]
        rel = os.path.relpath(dirpath, repo)
        os.makedirs(os.path.join(dst, rel), exist_ok=True)
        for fn in filenames:
            if fn.endswith('.py'):
                shutil.copy2(os.path.join(dirpath, fn), os.path.join(dst, rel, fn))


def apply_edits(root, edits):
    """edits: list of (relpath, old, new[, count]). Returns False if a pattern is absent (seed skipped)."""
    for ed in edits:
        rel, old, new = ed[0], ed[1], ed[2]
        count = ed[3] if len(ed) > 3 else 1
        p = os.path.join(root, rel)
        if not os.path.exists(p):
            return False
        s = open(p, encoding='utf-8').read()
        if s.count(old) < 1 or (count == 1 and s.count(old) != 1):
            return False
        s = s.replace(old, new) if count != 1 else s.replace(old, new, 1)
        open(p, 'w', encoding='utf-8').write(s)
    return True


def _run_variant(args):
    pid, repo, variant = args
    sys.path.insert(0, VERIF)
    import importlib
    chk = importlib.machinery.SourceFileLoader('verif_check', os.path.join(VERIF, 'check')).load_module()
    tmp = tempfile.mkdtemp(prefix='sa-variant-')
    try:
        make_copy(repo, tmp)
        if variant.get('patch'):
            import subprocess
            r = subprocess.run(['patch', '-p1', '-s', '-d', tmp, '-i', variant['patch']], capture_output=True, text=True)
            if r.returncode != 0:
                return {'name': variant['name'], 'skipped': True, 'why': 'patch does not apply to the current tree'}
        else:
            if not apply_edits(tmp, variant['edits']):
                return {'name': variant['name'], 'skipped': True}
            try:
                import ast
                for rel in {e[0] for e in variant['edits']}:
                    ast.parse(open(os.path.join(tmp, rel), encoding='utf-8').read())
            except SyntaxError as e:
                return {'name': variant['name'], 'skipped': True, 'why': 'edit does not parse: %s' % e}
        buf = io.StringIO()
        try:
            code, ck = chk.run_property(pid, 'quick', tmp, write=False, quiet=True, stream=buf)
        except Exception as e:          # including the wall-clock limit of one analysis
            return {'name': variant['name'], 'skipped': False, 'code': 2, 'violations': [], 'inconclusive': [],
                    'errors': ['analysis failed: %r' % e]}
        from sa.core.report import load_known
        known, _ = load_known(pid)
        keys = sorted({o.key for o in ck.violations() if o.key not in known})
        inconc = sorted({o.key for o in ck.inconclusive()})
        return {'name': variant['name'], 'skipped': False, 'code': code, 'violations': keys,
                'inconclusive': inconc, 'errors': ck.errors[:3]}
    finally:
        shutil.rmtree(tmp, ignore_errors=True)


def load_corpus(pid):
    from . import corpus
    out = [v for v in corpus.VARIANTS if v['pid'] == pid]
    # the confirmed seeded changes written by independent sub-agents for this property (seeded/<pid>-*/patch.diff);
    # seeds / refactorings listed in <dir>/PENDING are ingested but not yet handled by the rules: they are left out of
    # the self-validation until the rules were strengthened / generalised for them (tools/run_seeds.py and
    # tools/run_refactorings.py always run everything)
    def pending(d):
        pf = os.path.join(d, 'PENDING')
        return set(open(pf).read().split()) if os.path.exists(pf) else set()
    sd = os.path.join(VERIF, 'seeded')
    if os.path.isdir(sd):
        skip = pending(sd)
        for d in sorted(os.listdir(sd)):
            pf = os.path.join(sd, d, 'patch.diff')
            if d.startswith(pid + '-') and os.path.exists(pf) and d not in skip:
                out.append({'pid': pid, 'kind': 'M', 'name': 'seeded/' + d, 'expect': '', 'patch': pf, 'edits': []})
    # behaviour-preserving refactorings written by independent sub-agents (refactorings/<id>/patch.diff): every check
    # must stay silent on each of them, whichever part of the package they touch
    rd = os.path.join(VERIF, 'refactorings')
    if os.path.isdir(rd):
        skip = pending(rd)
        for d in sorted(os.listdir(rd)):
            pf = os.path.join(rd, d, 'patch.diff')
            if os.path.exists(pf) and d not in skip:
                out.append({'pid': pid, 'kind': 'E', 'name': 'refactorings/' + d, 'expect': '', 'patch': pf, 'edits': []})
    return out


def self_validate(pid, repo, base_code, base_ck, jobs=None, verbose=True):
    """Returns the final exit code of the thorough tier and updates the evidence file."""
    t0 = time.time()
    variants = load_corpus(pid)
    from ..core.report import load_known
    known, _ = load_known(pid)
    base_viol = {o.key for o in base_ck.violations() if o.key not in known}
    jobs = jobs or min(16, os.cpu_count() or 4)
    results = []
    with ProcessPoolExecutor(max_workers=jobs) as ex:
        for r in ex.map(_run_variant, [(pid, repo, v) for v in variants]):
            results.append(r)
    problems = []
    killed = silent = skipped = 0
    nm = sum(1 for v in variants if v['kind'] == 'M')
    ne = sum(1 for v in variants if v['kind'] == 'E')
    for v, r in zip(variants, results):
        if r.get('skipped'):
            skipped += 1
            continue
        new = [k for k in r['violations'] if k not in base_viol]
        if v['kind'] == 'M':
            hit = [k for k in new if k.startswith(v['expect'])]
            if hit:
                killed += 1
            else:
                problems.append('mutant %s not reported under %s (new findings: %s; exit %s; errors %s)' % (
                    v['name'], v['expect'], new[:2], r['code'], r['errors'][:1]))
        else:
            if not new and r['code'] != 2 or (not new and v.get('allow_inconclusive')):
                silent += 1
            elif not new and r['code'] == 2 and base_code == 2:
                silent += 1
            else:
                problems.append('equivalent variant %s raised %s (exit %s, errors %s, inconclusive %s)' % (
                    v['name'], new[:2], r['code'], r['errors'][:1], r['inconclusive'][:1]))
    evp = os.path.join(VERIF, 'evidence', '%s.json' % pid)
    try:
        ev = json.load(open(evp))
        ev['tier'] = 'thorough'
        ev['coverage']['self_validation'] = {
            'mutants_total': nm, 'mutants_killed': killed, 'equivalents_total': ne, 'equivalents_silent': silent,
            'skipped_seed_pattern_absent': skipped, 'problems': problems,
            'variants': [{'name': v['name'], 'kind': v['kind'], 'expect': v.get('expect'),
                          'result': ('skipped' if r.get('skipped') else r['violations'][:3])}
                         for v, r in zip(variants, results)],
            'wall_s': round(time.time() - t0, 2)}
        ev['wall_s'] = round(ev['wall_s'] + time.time() - t0, 3)
        json.dump(ev, open(evp, 'w'), indent=1, default=str)
    except Exception:
        pass
    if verbose:
        print('%s self-validation: %d/%d mutants reported, %d/%d equivalents silent, %d skipped (%.1fs)' % (
            pid, killed, nm - sum(1 for v, r in zip(variants, results) if v['kind'] == 'M' and r.get('skipped')),
            silent, ne - sum(1 for v, r in zip(variants, results) if v['kind'] == 'E' and r.get('skipped')),
            skipped, time.time() - t0))
    if verbose:
        for v, r in zip(variants, results):
            if r.get('skipped'):
                print('  skipped (seed pattern absent in the current tree): %s %s' % (v['name'], r.get('why', '')))
    if problems:
        for p in problems:
            print('ANALYSIS-ERROR property=%s self-validation: %s' % (pid, p))
        return 1 if base_code == 1 else 2
    return base_code
