"""Def-use expansion: rewrite an expression so that local temporaries are replaced by the
expressions that define them (through unique reaching definitions; several reaching definitions
give a __phi__(...) node), import aliases are resolved to canonical dotted names, and - on request -
calls to package functions with a single return are inlined by binding parameters.

The result is an ordinary `ast` expression (printable with ast.unparse) whose remaining plain names
are: parameters of the root function, canonical dotted globals (ast.Name with a dotted id), and the
marker calls  __phi__, __elem__, __index__, __loop__, __ctx__, __exc__, __item__, __top__.
"""
import ast
import copy
from .loader import FuncInfo, Module, target_names, SCOPE_NODES

MARKERS = ('__phi__', '__elem__', '__index__', '__loop__', '__ctx__', '__exc__', '__item__', '__top__',
           '__key__')


def mk(name, *args):
    return ast.Call(func=ast.Name(id=name, ctx=ast.Load()), args=list(args), keywords=[])


def mk_item(whole, k):
    """__item__(whole, k) with tuple literals and phi nodes seen through."""
    if isinstance(whole, (ast.Tuple, ast.List)) and isinstance(k, int) and -len(whole.elts) <= k < len(whole.elts) \
            and not any(isinstance(x, ast.Starred) for x in whole.elts):
        return whole.elts[k]
    if isinstance(whole, ast.Call) and isinstance(whole.func, ast.Name) and whole.func.id == '__phi__':
        alts = [mk_item(a, k) for a in whole.args]
        uniq, seen = [], set()
        for a in alts:
            t = u(a)
            if t not in seen:
                seen.add(t)
                uniq.append(a)
        return uniq[0] if len(uniq) == 1 else mk('__phi__', *uniq)
    if isinstance(k, int) and k >= 0 and isinstance(whole, ast.Call) and isinstance(whole.func, ast.Name) and whole.func.id == '__elem__' \
            and len(whole.args) == 1:
        z = whole.args[0]
        # the k-th component of an element of zip(a0, a1, ...) is an element of a_k
        if isinstance(z, ast.Call) and isinstance(z.func, ast.Name) and z.func.id in ('zip', 'builtins.zip') and not z.keywords \
                and k < len(z.args) and not any(isinstance(a, ast.Starred) for a in z.args):
            return mk('__elem__', z.args[k])
    return mk('__item__', whole, ast.Constant(k))


def is_marker(node, name=None):
    return isinstance(node, ast.Call) and isinstance(node.func, ast.Name) and \
        (node.func.id == name if name else node.func.id in MARKERS)


def dotted(node):
    """Dotted id of a canonical Name produced by expansion ('numpy.sum'), else None."""
    if isinstance(node, ast.Name):
        return node.id
    return None


def call_name(node):
    """For a Call: canonical dotted name of the callee if it is a global ('numpy.sum'),
    or '.method' for a method call on a value."""
    if not isinstance(node, ast.Call):
        return None
    f = node.func
    if isinstance(f, ast.Name):
        return f.id
    if isinstance(f, ast.Attribute):
        return '.' + f.attr
    return None


def u(node):
    try:
        return ast.unparse(node)
    except Exception:
        return '<%s>' % type(node).__name__


def bind_args(finfo, call, bound_method=None):
    """Map parameter name -> argument AST for a call of `finfo`. bound_method: True if the first
    parameter (self/cls) is implicit. Returns (mapping, ok)."""
    a = finfo.node.args
    pos = [x.arg for x in a.posonlyargs + a.args]
    if bound_method is None:
        bound_method = finfo.cls is not None and finfo.parent is None and finfo.kind != 'staticmethod'
    if bound_method and pos:
        pos = pos[1:]
    m, ok = {}, True
    i = 0
    for arg in call.args:
        if isinstance(arg, ast.Starred):
            ok = False
            break
        if i < len(pos):
            m[pos[i]] = arg
        else:
            ok = ok and a.vararg is not None
        i += 1
    allnames = set(pos) | {x.arg for x in a.kwonlyargs}
    for kw in call.keywords:
        if kw.arg is None:
            ok = False
        elif kw.arg in allnames:
            m[kw.arg] = kw.value
        else:
            ok = ok and a.kwarg is not None
    for p, d in finfo.defaults().items():
        if p not in m and p in allnames:
            m[p] = d
    return m, ok


class Expander:
    def __init__(self, prog, func, inline_depth=0, inline_filter=None, expand_self=True, keep=()):
        self.keep = set(keep)
        self.prog, self.func = prog, func
        self.cfg = func.cfg if isinstance(func, FuncInfo) else None
        self.inline_depth = inline_depth
        self.inline_filter = inline_filter
        self.expand_self = expand_self
        self.expand_globals = True
        self.tops = []

    # -------------------------------------------------------------- public
    def expand(self, expr, at=None):
        node = at if at is not None else (self.cfg.stmt_node_containing(expr) if self.cfg else None)
        return self._exp(expr, node, frozenset(), frozenset())

    def value_of(self, name, at):
        """Expanded value of local variable `name` as seen at CFG node `at` (node entry)."""
        return self._name(name, at, frozenset(), frozenset(), None)

    # -------------------------------------------------------------- internals
    def _name(self, ident, node, visiting, bound, orig):
        if ident in bound or ident in self.keep:
            return ast.Name(id=ident, ctx=ast.Load())
        func = self.func
        scope = func
        while isinstance(scope, FuncInfo) and ident not in scope.locals:
            scope = scope.parent
        if not isinstance(scope, FuncInfo):
            c = self.prog.canon_name(func, ident)
            g = self._global_const(c, visiting)
            if g is not None:
                return g
            return ast.Name(id=c or ident, ctx=ast.Load())
        if scope is not func:
            # closure variable of an enclosing function: keep symbolic
            c = self.prog.canon_name(func, ident)
            return ast.Name(id=c or ('<closure>.' + ident), ctx=ast.Load())
        if node is None:
            return ast.Name(id=ident, ctx=ast.Load())
        li = func.local_imports()
        defs = self.cfg.defs_reaching(node, ident)
        if not defs:
            c = self.prog.canon_name(func, ident)
            if c is not None:
                return ast.Name(id=c, ctx=ast.Load())
            return mk('__top__', ast.Constant('unbound ' + ident))
        vals = []
        for d in defs:
            key = (ident, d)
            if key in visiting:
                vals.append(mk('__loop__', ast.Constant(ident)))
                continue
            vals.append(self._def_value(self.cfg.nodes[d], ident, visiting | {key}, bound))
        uniq, seen = [], set()
        for v in vals:
            k = u(v)
            if k not in seen:
                seen.add(k)
                uniq.append(v)
        if len(uniq) == 1:
            return uniq[0]
        return mk('__phi__', *uniq)

    def _global_const(self, c, visiting):
        """Expand a module-level constant `pkg.mod.NAME = <small expression>` (assigned once at top level)."""
        if not c or not self.expand_globals or ('g', c) in visiting:
            return None
        modname, _, name = c.rpartition('.')
        m = self.prog.modules.get(modname)
        if m is None or name not in m.assigns or m.toplevel.get(name) != 'var':
            return None
        val = m.assigns[name]
        n_assign = sum(1 for st in ast.walk(m.tree) if isinstance(st, (ast.Assign, ast.AugAssign)) and any(
            isinstance(t, ast.Name) and t.id == name for t in (st.targets if isinstance(st, ast.Assign) else [st.target])))
        if n_assign != 1 or sum(1 for _ in ast.walk(val)) > 80:
            return None
        sub = Expander(self.prog, m, expand_self=False)
        r = sub._exp(val, None, visiting | {('g', c)}, frozenset())
        try:
            r._global = c
        except Exception:
            pass
        return r

    def _def_value(self, d, ident, visiting, bound):
        s = d.ast
        if d.kind == 'entry':
            n = ast.Name(id=ident, ctx=ast.Load())
            n._param = True
            return n
        if d.kind == 'for':
            it = s.iter
            return self._loop_target(s.target, it, ident, d, visiting, bound)
        if d.kind == 'with':
            for item in s.items:
                if item.optional_vars is not None and ident in list(target_names(item.optional_vars)):
                    return mk('__ctx__', self._exp(item.context_expr, d, visiting, bound))
        if d.kind == 'handler':
            return mk('__exc__')
        if isinstance(s, ast.Assign):
            if isinstance(s.value, ast.List) and not s.value.elts and len(s.targets) == 1 and isinstance(s.targets[0], ast.Name) \
                    and s.targets[0].id == ident and isinstance(self.func, FuncInfo):
                # an empty list filled by one append per iteration of a loop is that loop written as a comprehension
                try:
                    from ..rules.common import accumulation_alternatives
                    alts = accumulation_alternatives(self.func, ident)
                except Exception:
                    alts = None
                if alts:
                    vals = []
                    for comp, lp in alts:
                        at = self.cfg.node_of(lp) if self.cfg is not None else d
                        vals.append(self._exp(comp, at or d, visiting, bound))
                    return vals[0] if len(vals) == 1 else mk('__phi__', *vals)
            for t in s.targets:
                r = self._from_target(t, s.value, ident, d, visiting, bound)
                if r is not None:
                    return r
        if isinstance(s, ast.AnnAssign) and s.value is not None:
            return self._exp(s.value, d, visiting, bound)
        if isinstance(s, ast.AugAssign):
            left = self._exp(copy.copy(s.target) if not isinstance(s.target, ast.Name) else
                             ast.Name(id=s.target.id, ctx=ast.Load()), d, visiting, bound) \
                if not isinstance(s.target, ast.Name) else self._name(s.target.id, d, visiting, bound, None)
            return ast.BinOp(left=left, op=s.op, right=self._exp(s.value, d, visiting, bound))
        if isinstance(s, (ast.FunctionDef, ast.AsyncFunctionDef, ast.ClassDef)):
            c = self.prog.canon_name(self.func, ident)
            return ast.Name(id=c or ident, ctx=ast.Load())
        if isinstance(s, (ast.Import, ast.ImportFrom)):
            c = self.prog.canon_name(self.func, ident)
            return ast.Name(id=c or ident, ctx=ast.Load())
        # walrus inside statement
        for n in ast.walk(s) if isinstance(s, ast.AST) else []:
            if isinstance(n, ast.NamedExpr) and ident in list(target_names(n.target)):
                return self._exp(n.value, d, visiting, bound)
        return mk('__top__', ast.Constant('def of %s at L%s' % (ident, d.lineno)))

    def _from_target(self, t, value, ident, d, visiting, bound):
        if isinstance(t, ast.Name):
            if t.id == ident:
                return self._exp(value, d, visiting, bound)
            return None
        if isinstance(t, ast.Attribute) and isinstance(t.value, ast.Name):
            if t.value.id + '.' + t.attr == ident:
                return self._exp(value, d, visiting, bound)
            return None
        if isinstance(t, (ast.Tuple, ast.List)):
            names = [list(target_names(e)) for e in t.elts]
            for i, e in enumerate(t.elts):
                if ident in names[i] or (isinstance(e, ast.Attribute) and isinstance(e.value, ast.Name)
                                         and e.value.id + '.' + e.attr == ident):
                    if isinstance(value, (ast.Tuple, ast.List)) and len(value.elts) == len(t.elts) \
                            and not any(isinstance(x, ast.Starred) for x in value.elts):
                        return self._from_target(e, value.elts[i], ident, d, visiting, bound)
                    whole = self._exp(value, d, visiting, bound)
                    sub = mk_item(whole, i)
                    if isinstance(e, (ast.Name, ast.Attribute)):
                        return sub
                    # nested tuple target
                    return mk('__item__', sub, ast.Constant('nested'))
        return None

    def _loop_target(self, target, it, ident, d, visiting, bound):
        # enumerate / zip / range / items idioms
        def elem_of(x):
            return mk('__elem__', self._exp(x, d, visiting, bound))
        if isinstance(target, ast.Name):
            if isinstance(it, ast.Call) and isinstance(it.func, ast.Name) and it.func.id == 'range' \
                    and self.prog.canon_name(self.func, 'range') == 'builtins.range':
                return mk('__index__', *[self._exp(a, d, visiting, bound) for a in it.args])
            return elem_of(it)
        if isinstance(target, (ast.Tuple, ast.List)) and isinstance(it, ast.Call) and isinstance(it.func, ast.Name):
            fn = it.func.id
            if fn == 'enumerate' and len(target.elts) == 2 and it.args:
                if isinstance(target.elts[0], ast.Name) and target.elts[0].id == ident:
                    return mk('__index__', self._exp(it.args[0], d, visiting, bound))
                sub = target.elts[1]
                if isinstance(sub, ast.Name) and sub.id == ident:
                    return elem_of(it.args[0])
                if isinstance(sub, (ast.Tuple, ast.List)):
                    inner = it.args[0]
                    if isinstance(inner, ast.Call) and isinstance(inner.func, ast.Name) and inner.func.id == 'zip':
                        for k, e in enumerate(sub.elts):
                            if isinstance(e, ast.Name) and e.id == ident and k < len(inner.args):
                                return elem_of(inner.args[k])
                    for k, e in enumerate(sub.elts):
                        if isinstance(e, ast.Name) and e.id == ident:
                            return mk('__item__', elem_of(inner), ast.Constant(k))
            if fn == 'zip' and len(target.elts) == len(it.args):
                for k, e in enumerate(target.elts):
                    if isinstance(e, ast.Name) and e.id == ident:
                        return elem_of(it.args[k])
        if isinstance(target, (ast.Tuple, ast.List)):
            for k, e in enumerate(target.elts):
                if ident in list(target_names(e)):
                    if isinstance(e, ast.Name) and not any(isinstance(x, ast.Starred) for x in target.elts):
                        return mk_item(elem_of(it), k)
                    return mk('__item__', elem_of(it), ast.Constant(k))
        return mk('__top__', ast.Constant('loop target ' + ident))

    def _exp(self, e, node, visiting, bound):
        if e is None:
            return None
        P = self.prog
        if isinstance(e, ast.Name):
            if isinstance(e.ctx, ast.Load) or True:
                r = self._name(e.id, node, visiting, bound, e)
                if not hasattr(r, '_src'):
                    try:
                        r._src = e
                    except Exception:
                        pass
                return r
        if isinstance(e, ast.Attribute):
            c = P.canon(self.func, e) if not self._rooted_in_bound(e, bound) else None
            if c is not None and not c.startswith('?undefined'):
                g = self._global_const(c, visiting)
                if g is not None:
                    return g
                n = ast.Name(id=c, ctx=ast.Load())
                n._src = e
                return n
            if self.expand_self and isinstance(e.value, ast.Name) and node is not None and self.cfg is not None \
                    and e.value.id not in bound:
                key = e.value.id + '.' + e.attr
                defs = self.cfg.defs_reaching(node, key)
                if defs:
                    r = self._name_pseudo(key, defs, node, visiting, bound)
                    if r is not None:
                        return r
            n = ast.Attribute(value=self._exp(e.value, node, visiting, bound), attr=e.attr, ctx=ast.Load())
            n._src = e
            return n
        if isinstance(e, ast.Call):
            newf = self._exp(e.func, node, visiting, bound)
            args = [self._exp(a, node, visiting, bound) for a in e.args]
            kws = [ast.keyword(arg=k.arg, value=self._exp(k.value, node, visiting, bound)) for k in e.keywords]
            # a call through a variable that holds one of several package functions (f = a if c else b; f(x)): distribute
            fal = None
            if isinstance(newf, ast.IfExp):
                fal = [newf.body, newf.orelse]
            elif is_marker(newf, '__phi__'):
                fal = list(newf.args)
            if fal and all(isinstance(a_, ast.Name) and a_.id in P.funcs for a_ in fal) and self.inline_depth > 0:
                from .sym import clone
                outs = []
                for a_ in fal:
                    c_ = ast.Call(func=a_, args=[clone(x_) for x_ in args], keywords=[ast.keyword(arg=k_.arg, value=clone(k_.value)) for k_ in kws])
                    r_ = self._inline(c_, e, node, visiting, bound)
                    outs.append(r_ if r_ is not None else c_)
                if isinstance(newf, ast.IfExp):
                    n = ast.IfExp(test=newf.test, body=outs[0], orelse=outs[1])
                else:
                    n = mk('__phi__', *outs)
                n._src = e
                return n
            n = ast.Call(func=newf, args=args, keywords=kws)
            n._src = e
            if self.inline_depth > 0 or isinstance(newf, ast.Lambda):
                r = self._inline(n, e, node, visiting, bound)
                if r is not None:
                    return r
            if is_marker(n, '__item__') is False and isinstance(newf, ast.Name) and newf.id == '__item__':
                pass
            return n
        if isinstance(e, ast.Lambda):
            b = bound | set(a.arg for a in e.args.args + e.args.kwonlyargs + e.args.posonlyargs)
            n = ast.Lambda(args=e.args, body=self._exp(e.body, node, visiting, b))
            n._src = e
            return n
        if isinstance(e, (ast.ListComp, ast.SetComp, ast.GeneratorExp, ast.DictComp)):
            b = set(bound)
            gens = []
            for g in e.generators:
                it = self._exp(g.iter, node, visiting, frozenset(b))
                b |= set(target_names(g.target))
                ifs = [self._exp(c, node, visiting, frozenset(b)) for c in g.ifs]
                gens.append(ast.comprehension(target=g.target, iter=it, ifs=ifs, is_async=g.is_async))
            fb = frozenset(b)
            if isinstance(e, ast.DictComp):
                n = ast.DictComp(key=self._exp(e.key, node, visiting, fb), value=self._exp(e.value, node, visiting, fb),
                                 generators=gens)
            else:
                n = type(e)(elt=self._exp(e.elt, node, visiting, fb), generators=gens)
            n._src = e
            return n
        if isinstance(e, ast.NamedExpr):
            return self._exp(e.value, node, visiting, bound)
        if isinstance(e, ast.Subscript) and isinstance(e.ctx, ast.Load) and isinstance(e.slice, ast.Constant) \
                and isinstance(e.slice.value, int) and not isinstance(e.slice.value, bool):
            v = self._exp(e.value, node, visiting, bound)
            if is_marker(v, '__elem__'):
                r = mk_item(v, e.slice.value)
                if not is_marker(r, '__item__'):
                    r._src = e
                    return r
            n = ast.Subscript(value=v, slice=e.slice, ctx=ast.Load())
            n._src = e
            return n
        if isinstance(e, ast.expr) or isinstance(e, (ast.slice if hasattr(ast, 'slice') else ast.expr,)):
            n = copy.copy(e)
            for field, val in ast.iter_fields(e):
                if isinstance(val, ast.AST) and not isinstance(val, (ast.expr_context, ast.operator, ast.unaryop,
                                                                      ast.boolop, ast.cmpop)):
                    setattr(n, field, self._exp(val, node, visiting, bound))
                elif isinstance(val, list):
                    setattr(n, field, [self._exp(x, node, visiting, bound) if isinstance(x, ast.AST) and not
                                       isinstance(x, (ast.cmpop,)) else x for x in val])
            n._src = e
            return n
        if isinstance(e, ast.keyword):
            return ast.keyword(arg=e.arg, value=self._exp(e.value, node, visiting, bound))
        return e

    def _rooted_in_bound(self, e, bound):
        while isinstance(e, ast.Attribute):
            e = e.value
        return isinstance(e, ast.Name) and e.id in bound

    def _name_pseudo(self, key, defs, node, visiting, bound):
        vals = []
        for d in defs:
            k = (key, d)
            if k in visiting:
                vals.append(mk('__loop__', ast.Constant(key)))
                continue
            dn = self.cfg.nodes[d]
            vals.append(self._def_value(dn, key, visiting | {k}, bound))
        # the field may also hold whatever it held before the function started
        uniq, seen = [], set()
        for v in vals:
            kk = u(v)
            if kk not in seen:
                seen.add(kk)
                uniq.append(v)
        # was there a path from entry with no def? then the incoming value is possible too
        if self.cfg.maybe_unbound(node, key):
            base, attr = key.split('.', 1)
            inc = ast.Attribute(value=ast.Name(id=base, ctx=ast.Load()), attr=attr, ctx=ast.Load())
            if u(inc) not in seen:
                uniq.append(inc)
        if len(uniq) == 1:
            return uniq[0]
        return mk('__phi__', *uniq)

    # -------------------------------------------------------------- inlining
    def _beta(self, lam, call):
        """(lambda a, b: body)(x, y) -> body[a:=x, b:=y]"""
        ps = [a.arg for a in lam.args.posonlyargs + lam.args.args]
        if len(call.args) > len(ps) or any(isinstance(a, ast.Starred) for a in call.args) or lam.args.vararg or lam.args.kwarg:
            return None
        m = dict(zip(ps, call.args))
        for k in call.keywords:
            if k.arg in ps and k.arg not in m:
                m[k.arg] = k.value
        defaults = lam.args.defaults
        for p_, d_ in zip(ps[len(ps) - len(defaults):], defaults):
            m.setdefault(p_, d_)
        if set(m) != set(ps):
            return None
        from .sym import clone

        def leaf(n):
            if isinstance(n, ast.Name) and n.id in m and not getattr(n, '_param', False):
                return clone(m[n.id])
            return None
        return clone(lam.body, leaf)

    def _inline(self, newcall, orig, node=None, visiting=frozenset(), bound=frozenset()):
        if isinstance(newcall.func, ast.Lambda):
            r = self._beta(newcall.func, newcall)
            if r is not None:
                r._src = orig
            return r
        name = dotted(newcall.func)
        callee = None
        bound_method = None
        if name and name in self.prog.funcs:
            callee = self.prog.funcs[name]
            bound_method = False if callee.kind != 'classmethod' else True
            if callee.cls is not None and callee.kind == 'function' and callee.parent is None:
                bound_method = False  # Class.method(obj, ...) form
        elif isinstance(newcall.func, ast.Attribute) and isinstance(newcall.func.value, ast.Name) \
                and newcall.func.value.id in ('self', 'cls') and self.func.cls is not None:
            callee = self.func.cls.find_method(newcall.func.attr)
            bound_method = True
        if callee is None or callee.is_generator:
            return None
        if self.inline_filter is not None and not self.inline_filter(callee):
            return None
        allrets = _returns(callee.node)
        rets = [n for n in allrets if n.value is not None]
        if not rets or len(rets) != len(allrets) or len(rets) > 4:
            return None
        # a function that can fall off its end has an implicit None return: not inlined
        if any(lab == 'fall' for p_, lab in callee.cfg.exit.pred):
            return None
        m, ok = bind_args(callee, newcall, bound_method=bound_method)
        if not ok:
            return None
        sub = Expander(self.prog, callee, inline_depth=self.inline_depth - 1, inline_filter=self.inline_filter,
                       expand_self=self.expand_self)
        bodies = [sub.expand(r_.value) for r_ in rets]
        if len(bodies) == 1:
            body = bodies[0]
        else:
            uniq, seen = [], set()
            for b_ in bodies:
                t_ = u(b_)
                if t_ not in seen:
                    seen.add(t_)
                    uniq.append(b_)
            body = uniq[0] if len(uniq) == 1 else mk('__phi__', *uniq)
        self.tops.extend(sub.tops)
        params = set(callee.params)

        from .sym import clone

        nested_here = callee.parent is self.func

        def leaf(n):
            if nested_here and isinstance(n, ast.Name) and n.id.startswith('<closure>.') and node is not None:
                # a helper defined inside this function reads this function's variable: its value at the call
                ident = n.id[len('<closure>.'):]
                if ident in self.func.locals:
                    return self._name(ident, node, visiting, bound, None)
            if isinstance(n, ast.Name) and getattr(n, '_param', False) and n.id in params:
                if n.id in m:
                    return clone(m[n.id])
                if n.id in ('self', 'cls') and bound_method and isinstance(newcall.func, ast.Attribute):
                    return clone(newcall.func.value)
            return None
        r = clone(body, leaf)
        r._inlined_from = callee.qualname
        r._src = orig
        return r


def _returns(fnode):
    from .loader import walk_scope
    return [n for n in walk_scope(fnode) if isinstance(n, ast.Return)]


# ---------------------------------------------------------------------- helpers on expanded trees
def subexprs(e):
    for n in ast.walk(e):
        if isinstance(n, ast.expr):
            yield n


def calls_to(e, names):
    """All Call nodes in e whose canonical callee name is in names (names may contain '.method')."""
    names = set([names] if isinstance(names, str) else names)
    return [n for n in ast.walk(e) if isinstance(n, ast.Call) and call_name(n) in names]


def get_arg(call, pos, kw, default=None):
    if pos is not None and pos < len(call.args):
        return call.args[pos]
    for k in call.keywords:
        if k.arg == kw:
            return k.value
    return default


def phi_alternatives(e):
    """Top-level alternatives of an expression (flattening __phi__)."""
    if is_marker(e, '__phi__'):
        out = []
        for a in e.args:
            out.extend(phi_alternatives(a))
        return out
    return [e]


def mentions(e, pred):
    return any(pred(n) for n in ast.walk(e))


def names_in(e):
    return {n.id for n in ast.walk(e) if isinstance(n, ast.Name)}
