"""Algebraic normal form for (expanded) Python arithmetic expressions.

An expression is normalised to a Laurent polynomial with rational coefficients and rational
exponents over *atoms*; atoms are opaque hashable terms (names, subscripts, calls with normalised
arguments, comparisons in difference form, non-monomial sub-polynomials raised to a power).  Two
expressions with equal normal forms denote the same real function of their atoms; the converse is
not guaranteed (the form is sound for equality, incomplete) - rules therefore treat "different" as a
violation only when both sides are built from the known vocabulary, otherwise as inconclusive.

This is a static normal form: nothing is evaluated numerically and no solver is involved.
"""
import ast
from fractions import Fraction

ONE = Fraction(1)
ZERO = Fraction(0)

# spelling -> canonical function name
FN = {
    'numpy.abs': 'abs', 'numpy.absolute': 'abs', 'builtins.abs': 'abs', 'abs': 'abs', 'numpy.fabs': 'abs',
    'numpy.sum': 'sum', 'builtins.sum': 'sum', 'sum': 'sum', '.sum': 'sum', 'numpy.nansum': 'nansum',
    'math.fsum': 'sum',
    'numpy.log': 'log', 'math.log': 'log', 'numpy.log10': 'log10', 'math.log10': 'log10',
    'numpy.log2': 'log2', 'numpy.exp': 'exp', 'math.exp': 'exp',
    'numpy.sqrt': 'sqrt', 'math.sqrt': 'sqrt', 'numpy.power': 'pow', 'builtins.pow': 'pow', 'math.pow': 'pow',
    'numpy.square': 'square',
    'numpy.floor': 'floor', 'math.floor': 'floor', 'numpy.ceil': 'ceil', 'math.ceil': 'ceil',
    'numpy.round': 'round', 'numpy.around': 'round', 'numpy.rint': 'rint', 'builtins.round': 'round',
    'numpy.trunc': 'trunc', 'math.trunc': 'trunc',
    'numpy.cumsum': 'cumsum', '.cumsum': 'cumsum',
    'numpy.min': 'amin', 'numpy.amin': 'amin', '.min': 'amin', 'numpy.max': 'amax', 'numpy.amax': 'amax',
    '.max': 'amax', 'builtins.min': 'min', 'builtins.max': 'max', 'min': 'min', 'max': 'max',
    'builtins.len': 'len', 'len': 'len', 'numpy.size': 'size',
    'builtins.int': 'int', 'int': 'int', 'builtins.float': 'float', 'float': 'float',
    'numpy.mean': 'mean', '.mean': 'mean', 'numpy.nonzero': 'nonzero', '.nonzero': 'nonzero',
    'numpy.unique': 'unique', 'numpy.arange': 'arange', 'numpy.searchsorted': 'searchsorted',
    '.searchsorted': 'searchsorted', 'numpy.sort': 'sort', 'builtins.sorted': 'sort',
    'numpy.multiply': 'mul', 'numpy.divide': 'div', 'numpy.true_divide': 'div', 'numpy.add': 'add',
    'numpy.subtract': 'sub', 'numpy.negative': 'neg', 'numpy.floor_divide': 'floordiv',
    'scipy.special.loggamma': 'loggamma', 'scipy.special.gammaln': 'loggamma', 'math.lgamma': 'loggamma',
    'numpy.logical_and': 'and', 'numpy.logical_or': 'or', 'numpy.logical_not': 'not',
    'numpy.compress': 'compress', 'numpy.log1p': 'log1p', 'numpy.expm1': 'expm1',
    'numpy.not_equal': 'ne', 'numpy.equal': 'eq', 'numpy.less': 'lt', 'numpy.less_equal': 'le',
    'numpy.greater': 'gt', 'numpy.greater_equal': 'ge',
}

# value-preserving wrappers erased on request (shape / dtype / copy only)
SHAPE_FUNCS = {'numpy.asarray', 'numpy.array', 'numpy.copy', 'numpy.ravel', 'numpy.asanyarray',
               'numpy.ascontiguousarray', 'numpy.squeeze', 'numpy.atleast_1d', 'builtins.float', 'float',
               'numpy.float64'}
SHAPE_METHODS = {'ravel', 'copy', 'flatten', 'squeeze', 'tolist'}


_KEYS = {}


def _key(obj):
    """Canonical, cached string key of an atom / monomial / Poly / tuple structure."""
    if isinstance(obj, Poly):
        return obj.skey()
    if isinstance(obj, tuple):
        i = id(obj)
        hit = _KEYS.get(i)
        if hit is not None and hit[0] is obj:
            return hit[1]
        k = '(' + ','.join(_key(x) for x in obj) + ')'
        _KEYS[i] = (obj, k)
        return k
    if isinstance(obj, Fraction):
        return str(obj)
    return repr(obj)


class Poly:
    """dict: monomial -> Fraction; monomial = tuple of (atom, Fraction exponent), sorted by key. Immutable."""
    __slots__ = ('t', '_k', '_h')

    def __init__(self, t=None):
        tt = {}
        for k, v in (t or {}).items():
            if v != 0:
                k, v = _fold_consts(k, v)
                tt[k] = tt.get(k, ZERO) + v
        self.t = {k: v for k, v in tt.items() if v != 0}
        self._k = None
        self._h = None

    def skey(self):
        if self._k is None:
            self._k = 'P[' + ';'.join(sorted(_key(m) + '*' + str(c) for m, c in self.t.items())) + ']'
        return self._k

    @staticmethod
    def const(c):
        return Poly({(): Fraction(c)}) if c != 0 else Poly()

    @staticmethod
    def atom(a, exp=ONE):
        return Poly({((a, Fraction(exp)),): ONE})

    def is_const(self):
        return all(m == () for m in self.t)

    def const_value(self):
        return self.t.get((), ZERO)

    def is_zero(self):
        return not self.t

    def single_term(self):
        if len(self.t) == 1:
            (m, c), = self.t.items()
            return m, c
        return None

    def __add__(self, o):
        t = dict(self.t)
        for m, c in o.t.items():
            t[m] = t.get(m, ZERO) + c
        return Poly(t)

    def __neg__(self):
        return Poly({m: -c for m, c in self.t.items()})

    def __sub__(self, o):
        return self + (-o)

    def scale(self, c):
        return Poly({m: v * c for m, v in self.t.items()})

    def __mul__(self, o):
        t = {}
        for m1, c1 in self.t.items():
            for m2, c2 in o.t.items():
                m = _mono_mul(m1, m2)
                t[m] = t.get(m, ZERO) + c1 * c2
        return Poly(t)

    def key(self):
        return self.skey()

    def __eq__(self, o):
        return isinstance(o, Poly) and self.skey() == o.skey()

    def __hash__(self):
        if self._h is None:
            self._h = hash(self.skey())
        return self._h

    def atoms(self):
        out = set()
        for m in self.t:
            for a, _ in m:
                out.add(a)
        return out

    def all_atoms(self):
        """Atoms including those nested inside other atoms."""
        out = set()
        def rec(a):
            out.add(a)
            if isinstance(a, tuple):
                for x in a:
                    recobj(x)
        def recobj(x):
            if isinstance(x, Poly):
                for a in x.atoms():
                    rec(a)
            elif isinstance(x, tuple):
                # either an atom, a key structure or a list of things
                if x and isinstance(x[0], str):
                    rec(x)
                else:
                    for y in x:
                        recobj(y)
        for a in self.atoms():
            rec(a)
        return out

    def __repr__(self):
        return show(self)


def _fold_consts(m, c):
    """('const', 'p/q') atoms raised to an integer power are folded into the rational coefficient."""
    if not any(isinstance(a, tuple) and a and a[0] == 'const' for a, e in m):
        return m, c
    out = []
    for a, e in m:
        if a[0] == 'const' and e.denominator == 1:
            try:
                c = c * Fraction(a[1]) ** int(e)
                continue
            except (ValueError, ZeroDivisionError):
                pass
        out.append((a, e))
    return tuple(out), c


def _mono_mul(m1, m2):
    d = dict(m1)
    for a, e in m2:
        d[a] = d.get(a, ZERO) + e
    return tuple(sorted(((a, e) for a, e in d.items() if e != 0), key=_key))


def show_atom(a):
    if isinstance(a, tuple) and a:
        tag = a[0]
        if tag == 'n':
            return a[1]
        if tag == 'poly':
            return '(' + show(a[1]) + ')'
        if tag == 'call':
            return '%s(%s)' % (a[1], ', '.join([show_any(x) for x in a[2]] + ['%s=%s' % (k, show_any(v)) for k, v in a[3]]))
        if tag == 'sub':
            return '%s[%s]' % (show_any(a[1]), show_any(a[2]))
        if tag == 'attr':
            return '%s.%s' % (show_any(a[1]), a[2])
        if tag == 'const':
            return a[1]
        if tag in ('pos', 'nonneg', 'zero', 'nonzero'):
            op = {'pos': '> 0', 'nonneg': '>= 0', 'zero': '== 0', 'nonzero': '!= 0'}[tag]
            return '(%s %s)' % (show_any(a[1]), op)
        return '%s(%s)' % (tag, ', '.join(show_any(x) for x in a[1:]))
    return str(a)


def show_any(x):
    if isinstance(x, Poly):
        return show(x)
    if isinstance(x, tuple):
        if x and isinstance(x[0], str):
            return show_atom(x)
        return '(' + ', '.join(show_any(y) for y in x) + ')'
    return str(x)


def show(p):
    if not p.t:
        return '0'
    parts = []
    for m, c in sorted(p.t.items(), key=lambda kv: _key(kv[0])):
        fac = []
        for a, e in m:
            s = show_atom(a)
            fac.append(s if e == 1 else '%s**%s' % (s, e))
        if c == 1 and fac:
            parts.append('*'.join(fac))
        elif c == -1 and fac:
            parts.append('-' + '*'.join(fac))
        else:
            parts.append('*'.join([str(c)] + fac))
    return ' + '.join(parts)


def _primitive(p):
    """Split p = c * m * q with c rational, m a monomial common to all terms, q primitive with a
    canonical sign / leading coefficient 1."""
    items = sorted(p.t.items(), key=lambda kv: _key(kv[0]))
    # common monomial factor
    common = None
    for m, _ in items:
        d = dict(m)
        if common is None:
            common = d
        else:
            common = {a: min(e, d[a]) for a, e in common.items() if a in d and (e > 0) == (d[a] > 0)}
            # only keep factors with same-sign exponents; use the one closer to zero
            common = {a: (e if abs(e) <= abs(d[a]) else d[a]) for a, e in common.items()}
    common = {a: e for a, e in (common or {}).items() if e != 0}
    cm = tuple(sorted(common.items(), key=_key))
    inv = tuple((a, -e) for a, e in cm)
    q = Poly({_mono_mul(m, inv): c for m, c in items})
    lead = sorted(q.t.items(), key=lambda kv: _key(kv[0]))[0][1]
    q = q.scale(1 / lead)
    return lead, cm, q


def power(p, k):
    k = Fraction(k)
    if k == 0:
        return Poly.const(1)
    if k == 1:
        return p
    st = p.single_term()
    if p.is_zero():
        return Poly()
    if st is not None:
        m, c = st
        if k.denominator == 1:
            return Poly({tuple((a, e * k) for a, e in m): c ** int(k)})
        if c == 1:
            return Poly({tuple((a, e * k) for a, e in m): ONE})
        if c > 0:
            r = _rat_root(c, k)
            if r is not None:
                return Poly({tuple((a, e * k) for a, e in m): r})
            return Poly({_mono_mul(tuple((a, e * k) for a, e in m), ((('const', str(c)), k),)): ONE})
    if k.denominator == 1 and 0 < k <= 6:
        r = Poly.const(1)
        for _ in range(int(k)):
            r = r * p
        return r
    lead, cm, q = _primitive(p)
    base = Poly.atom(('poly', q), k)
    mono = Poly({tuple((a, e * k) for a, e in cm): ONE})
    if k.denominator == 1:
        coef = Poly.const(lead ** int(k))
    else:
        r = _rat_root(lead, k) if lead > 0 else None
        coef = Poly.const(r) if r is not None else Poly.atom(('const', str(lead)), k)
    if q.single_term() is not None and q.single_term()[0] == () :
        base = Poly.const(1)
    return coef * mono * base


def _rat_root(c, k):
    try:
        num = round(c.numerator ** float(k))
        den = round(c.denominator ** float(k))
        r = Fraction(num, den)
        if k.denominator in (2, 3) and r ** k.denominator == c ** k.numerator:
            return r
    except Exception:
        pass
    return None


class Unknown(Exception):
    pass


class Normalizer:
    def __init__(self, erase_shape=True, fn_alias=None, env=None, distribute_sum=False):
        self.erase_shape = erase_shape
        self.fn = dict(FN)
        if fn_alias:
            self.fn.update(fn_alias)
        self.env = env or {}
        self.unknown_calls = set()
        self.distribute_sum = distribute_sum

    # ---- entry
    def nf(self, e):
        if isinstance(e, str):
            e = ast.parse(e, mode='eval').body
        return self._nf(e)

    def eq(self, a, b):
        return self.nf(a) == self.nf(b)

    # ---- helpers
    def _dotted(self, e):
        chain = []
        while isinstance(e, ast.Attribute):
            chain.append(e.attr)
            e = e.value
        if isinstance(e, ast.Name):
            return '.'.join([e.id] + chain[::-1])
        return None

    def _atom_of(self, e):
        p = self._nf(e)
        return p

    def _k(self, e):
        """Key of a sub-expression used inside an atom."""
        return self._nf(e)

    def _nf(self, e):
        if isinstance(e, ast.Constant):
            v = e.value
            if isinstance(v, bool) or v is None or isinstance(v, (str, bytes)) or v is Ellipsis:
                return Poly.atom(('const', repr(v)))
            if isinstance(v, int):
                return Poly.const(Fraction(v))
            if isinstance(v, float):
                if v != v or v in (float('inf'), float('-inf')):
                    return Poly.atom(('const', repr(v)))
                return Poly.const(Fraction(repr(v)))
            return Poly.atom(('const', repr(v)))
        if isinstance(e, ast.Name):
            if e.id in self.env:
                return self._nf(self.env[e.id]) if not isinstance(self.env[e.id], Poly) else self.env[e.id]
            return Poly.atom(('n', e.id))
        if isinstance(e, ast.Attribute):
            d = self._dotted(e)
            if d is not None:
                if d in self.env:
                    return self._nf(self.env[d]) if not isinstance(self.env[d], Poly) else self.env[d]
                return Poly.atom(('n', d))
            if e.attr == 'T' and self.erase_shape:
                return self._nf(e.value)
            return Poly.atom(('attr', self._k(e.value), e.attr))
        if isinstance(e, ast.UnaryOp):
            if isinstance(e.op, ast.USub):
                return -self._nf(e.operand)
            if isinstance(e.op, ast.UAdd):
                return self._nf(e.operand)
            return self._not(self._nf(e.operand))
        if isinstance(e, ast.BinOp):
            op = e.op
            if isinstance(op, ast.Add):
                return self._nf(e.left) + self._nf(e.right)
            if isinstance(op, ast.Sub):
                return self._nf(e.left) - self._nf(e.right)
            if isinstance(op, ast.Mult):
                return self._nf(e.left) * self._nf(e.right)
            if isinstance(op, ast.Div):
                return self._nf(e.left) * power(self._nf(e.right), -1)
            if isinstance(op, ast.Pow):
                return self._pow(self._nf(e.left), self._nf(e.right))
            if isinstance(op, (ast.BitAnd, ast.BitOr)):
                return self._bool('and' if isinstance(op, ast.BitAnd) else 'or', [self._nf(e.left), self._nf(e.right)])
            name = type(op).__name__.lower()
            return Poly.atom((name, self._nf(e.left), self._nf(e.right)))
        if isinstance(e, ast.BoolOp):
            return self._bool('and' if isinstance(e.op, ast.And) else 'or', [self._nf(v) for v in e.values])
        if isinstance(e, ast.Compare):
            parts = []
            left = e.left
            for op, right in zip(e.ops, e.comparators):
                parts.append(self._cmp(op, self._nf(left), self._nf(right)))
                left = right
            if len(parts) == 1:
                return parts[0]
            return self._bool('and', parts)
        if isinstance(e, ast.Call):
            return self._call(e)
        if isinstance(e, ast.Subscript):
            return Poly.atom(('sub', self._k(e.value), self._slice(e.slice)))
        if isinstance(e, (ast.Tuple, ast.List)):
            return Poly.atom(('tuple', tuple(self._k(x) for x in e.elts)))
        if isinstance(e, ast.IfExp):
            return Poly.atom(('ifexp', self._k(e.test), self._k(e.body), self._k(e.orelse)))
        if isinstance(e, ast.Starred):
            return Poly.atom(('star', self._k(e.value)))
        if isinstance(e, ast.Slice):
            return Poly.atom(('slice', self._slice(e)))
        if isinstance(e, ast.Dict):
            return Poly.atom(('dict', tuple((self._k(k) if k is not None else None, self._k(v)) for k, v in zip(e.keys, e.values))))
        if isinstance(e, ast.JoinedStr):
            return Poly.atom(('fstr', ast.unparse(e)))
        return Poly.atom(('expr', ast.unparse(e)))

    def _slice(self, s):
        if isinstance(s, ast.Slice):
            return ('slice', tuple(None if x is None else self._k(x) for x in (s.lower, s.upper, s.step)))
        if isinstance(s, ast.Tuple):
            return ('idx', tuple(self._slice(x) for x in s.elts))
        return self._k(s)

    def _pow(self, base, exp):
        if exp.is_const():
            return power(base, exp.const_value())
        return Poly.atom(('pow', base, exp))

    def _sign_canon(self, p):
        """Return (sign, canonical poly) so that p = sign * canon with the first coefficient positive."""
        if p.is_zero():
            return 1, p
        lead = sorted(p.t.items(), key=lambda kv: _key(kv[0]))[0][1]
        if lead < 0:
            return -1, -p
        return 1, p

    def _cmp(self, op, a, b):
        d = a - b
        if isinstance(op, ast.Gt):
            return Poly.atom(('pos', d))
        if isinstance(op, ast.Lt):
            return Poly.atom(('pos', -d))
        if isinstance(op, ast.GtE):
            return Poly.atom(('nonneg', d))
        if isinstance(op, ast.LtE):
            return Poly.atom(('nonneg', -d))
        if isinstance(op, ast.Eq):
            return Poly.atom(('zero', self._sign_canon(d)[1]))
        if isinstance(op, ast.NotEq):
            return Poly.atom(('nonzero', self._sign_canon(d)[1]))
        name = type(op).__name__.lower()
        return Poly.atom((name, a, b))

    def _not(self, p):
        st = p.single_term()
        if st is not None and st[1] == 1 and len(st[0]) == 1 and st[0][0][1] == 1:
            a = st[0][0][0]
            if a[0] == 'pos':
                return Poly.atom(('nonneg', -a[1]))
            if a[0] == 'nonneg':
                return Poly.atom(('pos', -a[1]))
            if a[0] == 'zero':
                return Poly.atom(('nonzero', a[1]))
            if a[0] == 'nonzero':
                return Poly.atom(('zero', a[1]))
            if a[0] == 'not':
                return a[1]
            if a[0] in ('and', 'or'):
                other = 'or' if a[0] == 'and' else 'and'
                return self._bool(other, [self._not(x) for x in a[1]])
        return Poly.atom(('not', p))

    def _bool(self, kind, parts):
        flat = []
        for p in parts:
            st = p.single_term()
            if st is not None and st[1] == 1 and len(st[0]) == 1 and st[0][0][1] == 1 and st[0][0][0][0] == kind:
                flat.extend(st[0][0][0][1])
            else:
                flat.append(p)
        uniq = {}
        for p in flat:
            uniq[p.key()] = p
        items = tuple(uniq[k] for k in sorted(uniq, key=_key))
        if len(items) == 1:
            return items[0]
        return Poly.atom((kind, items))

    def _callee(self, e):
        f = e.func
        if isinstance(f, ast.Name):
            return f.id, None
        d = self._dotted(f)
        if d is not None and (d.split('.')[0] in ('numpy', 'scipy', 'math', 'builtins', 'csep', 'datetime', 'calendar',
                                                    'operator', 'pandas', 'mercantile', 'os', 'json', 'csv', 'time')
                              or d in self.fn):
            return d, None
        if isinstance(f, ast.Attribute):
            return '.' + f.attr, f.value
        return None, None

    def _call(self, e):
        name, recv = self._callee(e)
        args = list(e.args)
        kws = {k.arg: k.value for k in e.keywords if k.arg is not None}
        # shape-only wrappers
        if self.erase_shape:
            if name in SHAPE_FUNCS and len(args) >= 1:
                return self._nf(args[0])
            if recv is not None and name[1:] in SHAPE_METHODS and not args:
                return self._nf(recv)
            if recv is not None and name == '.astype' and len(args) == 1:
                a = args[0]
                ad = self._dotted(a) or (a.value if isinstance(a, ast.Constant) else '')
                if str(ad) in ('float', 'builtins.float', 'numpy.float64', 'numpy.float32', 'numpy.float_'):
                    return self._nf(recv)
            if recv is not None and name == '.reshape':
                return self._nf(recv)
        canon = self.fn.get(name)
        if recv is not None and canon is not None:
            args = [recv] + args
        elif recv is not None:
            # unknown method: atom with receiver
            self.unknown_calls.add(name)
            return Poly.atom(('call', name, tuple([self._k(recv)] + [self._k(a) for a in args]),
                              tuple(sorted(((k, self._k(v)) for k, v in kws.items()), key=_key))))
        if canon is None:
            if name is None:
                return Poly.atom(('expr', ast.unparse(e)))
            if name.startswith('__') and name.endswith('__'):
                return Poly.atom((name.strip('_'),) + tuple(self._k(a) for a in args))
            self.unknown_calls.add(name)
            return Poly.atom(('call', name, tuple(self._k(a) for a in args),
                              tuple(sorted(((k, self._k(v)) for k, v in kws.items()), key=_key))))
        A = [self._nf(a) for a in args]
        K = tuple(sorted(((k, self._k(v)) for k, v in kws.items()), key=_key))
        if canon in ('log', 'log10', 'log2') and len(A) == 1 and not K:
            return self._log(canon, A[0])
        if canon == 'sqrt' and len(A) == 1:
            return power(A[0], Fraction(1, 2))
        if canon == 'square' and len(A) == 1:
            return power(A[0], 2)
        if canon == 'pow' and len(A) == 2:
            return self._pow(A[0], A[1])
        if canon == 'mul' and len(A) == 2:
            return A[0] * A[1]
        if canon == 'div' and len(A) == 2:
            return A[0] * power(A[1], -1)
        if canon == 'add' and len(A) == 2:
            return A[0] + A[1]
        if canon == 'sub' and len(A) == 2:
            return A[0] - A[1]
        if canon == 'neg' and len(A) == 1:
            return -A[0]
        if canon in ('lt', 'le', 'gt', 'ge', 'eq', 'ne') and len(A) == 2:
            op = {'lt': ast.Lt, 'le': ast.LtE, 'gt': ast.Gt, 'ge': ast.GtE, 'eq': ast.Eq, 'ne': ast.NotEq}[canon]()
            return self._cmp(op, A[0], A[1])
        if canon in ('and', 'or') and len(A) == 2:
            return self._bool(canon, A)
        if canon == 'not' and len(A) == 1:
            return self._not(A[0])
        if canon == 'compress' and len(A) >= 2:
            sgn, c = self._sign_canon(A[1])
            return Poly.atom(('call', 'compress', (A[0], c) + tuple(A[2:]), K)).scale(sgn)
        if canon == 'log1p' and len(A) == 1:
            return self._log('log', A[0] + Poly.const(1))
        if canon == 'expm1' and len(A) == 1:
            return Poly.atom(('call', 'exp', (A[0],), ())) - Poly.const(1)
        if canon in ('len', 'size') and len(A) == 1:
            st = A[0].single_term()
            if st is not None and st[0] != () and st[1] != 1:
                return Poly.atom(('call', canon, (Poly({st[0]: ONE}),), K))
        if canon in ('min', 'max') and len(A) == 2 and not K:
            A = sorted(A, key=_key)
        if canon == 'abs' and len(A) == 1:
            sgn, c = self._sign_canon(A[0])
            if c.is_const():
                return c
            return Poly.atom(('call', 'abs', (c,), ()))
        if canon == 'sum' and len(A) == 1 and not K and self.distribute_sum:
            p = A[0]
            if () not in p.t and len(p.t) > 1:
                out = Poly()
                for m, c in p.t.items():
                    out = out + Poly.atom(('call', 'sum', (Poly({m: ONE}),), ())).scale(c)
                return out
        if canon == 'sum' and len(A) == 1 and not K:
            # pull a rational factor out of a single-term argument: sum(2*x) = 2*sum(x)
            st = A[0].single_term()
            if st is not None and st[1] != 1 and st[0] != ():
                return Poly.atom(('call', 'sum', (Poly({st[0]: ONE}),), ())).scale(st[1])
        return Poly.atom(('call', canon, tuple(A), K))

    def _log(self, fn, p):
        st = p.single_term()
        if st is None:
            return Poly.atom(('call', fn, (p,), ()))
        m, c = st
        out = Poly()
        if c != 1:
            if c <= 0:
                return Poly.atom(('call', fn, (p,), ()))
            out = out + Poly.atom(('call', fn, (Poly.const(c),), ()))
        for a, e in m:
            if isinstance(a, tuple) and a[0] == 'call' and a[1] == 'exp' and fn == 'log' and len(a[2]) == 1:
                out = out + a[2][0].scale(e)
            else:
                out = out + Poly.atom(('call', fn, (Poly.atom(a),), ())).scale(e)
        return out


def parse(src):
    return ast.parse(src, mode='eval').body


def clone(node, leaf=None):
    """Field-wise copy of an AST (ignores helper attributes such as _src/_parent, which deepcopy would drag
    along together with the whole module). `leaf(node)` may return a replacement for a node."""
    if leaf is not None:
        r = leaf(node)
        if r is not None:
            return r
    if isinstance(node, list):
        return [clone(x, leaf) for x in node]
    if not isinstance(node, ast.AST):
        return node
    new = type(node)()
    for f in node._fields:
        if hasattr(node, f):
            setattr(new, f, clone(getattr(node, f), leaf))
    for a in ('_param',):
        if hasattr(node, a):
            setattr(new, a, getattr(node, a))
    return new


def rename(e, mapping):
    """Simultaneous renaming of plain names in an AST (returns a copy)."""
    def leaf(n):
        if isinstance(n, ast.Name) and n.id in mapping:
            m = ast.Name(id=mapping[n.id], ctx=ast.Load())
            if hasattr(n, '_param'):
                m._param = n._param
            return m
        return None
    return clone(e, leaf)
