"""Statement-level control-flow graph for one function, with dominators, post-dominators,
reaching definitions and simple reachability queries.  Covers the statement kinds the analysed
package uses: if/elif/else, for/while (+break/continue/else), try/except/else/finally, with,
return, raise, assert, yield (as an ordinary statement), nested defs (as a definition statement).
"""
import ast
from .loader import target_names, walk_scope


class Node:
    __slots__ = ('id', 'kind', 'ast', 'succ', 'pred', 'defs', 'handlers', 'loop')

    def __init__(self, id, kind, astnode):
        self.id, self.kind, self.ast = id, kind, astnode
        self.succ, self.pred = [], []
        self.defs = []
        self.handlers = None
        self.loop = None

    @property
    def lineno(self):
        return getattr(self.ast, 'lineno', 0)

    def exprs(self):
        """Expressions evaluated when control is at this node (header only for compound stmts)."""
        a = self.ast
        if self.kind == 'test':
            return [a.test]
        if self.kind == 'for':
            return [a.iter]
        if self.kind == 'with':
            return [i.context_expr for i in a.items]
        if self.kind in ('entry', 'exit', 'raise_exit', 'handler', 'join'):
            return [a.type] if self.kind == 'handler' and a is not None and a.type is not None else []
        if isinstance(a, (ast.FunctionDef, ast.AsyncFunctionDef, ast.ClassDef)):
            return list(a.decorator_list)
        if isinstance(a, ast.stmt):
            return [a]
        return [a] if a is not None else []

    def __repr__(self):
        return '<%d %s L%s>' % (self.id, self.kind, self.lineno)


def _store_names(stmt):
    """Variables (and self.<attr> pseudo-variables) (re)bound by a simple statement."""
    out = []
    def tgt(t):
        if isinstance(t, ast.Name):
            out.append(t.id)
        elif isinstance(t, (ast.Tuple, ast.List)):
            for e in t.elts:
                tgt(e)
        elif isinstance(t, ast.Starred):
            tgt(t.value)
        elif isinstance(t, ast.Attribute) and isinstance(t.value, ast.Name):
            out.append(t.value.id + '.' + t.attr)
    if isinstance(stmt, ast.Assign):
        for t in stmt.targets:
            tgt(t)
    elif isinstance(stmt, (ast.AugAssign, ast.AnnAssign)):
        if not (isinstance(stmt, ast.AnnAssign) and stmt.value is None):
            tgt(stmt.target)
    elif isinstance(stmt, (ast.FunctionDef, ast.AsyncFunctionDef, ast.ClassDef)):
        out.append(stmt.name)
    elif isinstance(stmt, (ast.Import, ast.ImportFrom)):
        for al in stmt.names:
            out.append((al.asname or al.name).split('.')[0])
    elif isinstance(stmt, ast.Delete):
        for t in stmt.targets:
            tgt(t)
    # walrus
    if isinstance(stmt, ast.AST):
        for n in walk_scope(stmt) if not isinstance(stmt, (ast.FunctionDef, ast.AsyncFunctionDef, ast.ClassDef)) else []:
            if isinstance(n, ast.NamedExpr):
                out.extend(target_names(n.target))
    return out


def _exc_names(typ):
    if typ is None:
        return None  # bare except
    if isinstance(typ, ast.Tuple):
        out = []
        for e in typ.elts:
            out.extend(_exc_names(e) or [])
        return out
    if isinstance(typ, ast.Name):
        return [typ.id]
    if isinstance(typ, ast.Attribute):
        return [typ.attr]
    return ['?']


_EXC_PARENTS = {
    'StopIteration': ['Exception'], 'ValueError': ['Exception'], 'TypeError': ['Exception'],
    'KeyError': ['LookupError', 'Exception'], 'IndexError': ['LookupError', 'Exception'],
    'AttributeError': ['Exception'], 'RuntimeError': ['Exception'], 'AssertionError': ['Exception'],
    'IOError': ['OSError', 'Exception'], 'OSError': ['Exception'], 'NotImplementedError': ['RuntimeError', 'Exception'],
    'FileNotFoundError': ['OSError', 'IOError', 'Exception'], 'UnboundLocalError': ['NameError', 'Exception'],
    'NameError': ['Exception'], 'ZeroDivisionError': ['ArithmeticError', 'Exception'],
}


def handler_catches(handler, excname):
    names = _exc_names(handler.type)
    if names is None:
        return True
    if excname is None:
        return None  # unknown
    cand = {excname, 'BaseException'} | set(_EXC_PARENTS.get(excname, ['Exception']))
    return bool(cand & set(names))


class CFG:
    def __init__(self, func):
        self.func = func
        self.nodes = []
        self.by_ast = {}
        self.entry = self._new('entry', func.node)
        self.exit = self._new('exit', None)
        self.raise_exit = self._new('raise_exit', None)
        self.entry.defs = list(func.params)
        self._loops = []
        self._tries = []
        dangling = self._seq(func.node.body, [(self.entry, 'next')])
        for n, lab in dangling:
            self._edge(n, self.exit, 'fall' if lab == 'next' or True else lab)
        self._dom = None
        self._pdom = None
        self._rd = None

    # ------------------------------------------------------------ construction
    def _new(self, kind, astnode):
        n = Node(len(self.nodes), kind, astnode)
        self.nodes.append(n)
        if kind == 'test' and astnode is not None and getattr(astnode, 'test', None) is not None:
            # names bound by assignment expressions inside the condition (`if verbose and (k := i + 1) % 100 == 0:`)
            for x in ast.walk(astnode.test):
                if isinstance(x, ast.NamedExpr):
                    n.defs.extend(target_names(x.target))
        if astnode is not None and kind not in ('entry',) and astnode not in self.by_ast:
            self.by_ast[astnode] = n
        if self._tries_active():
            n.handlers = list(self._tries[-1])
        return n

    def _tries_active(self):
        return bool(getattr(self, '_tries', None))

    def _edge(self, a, b, label='next'):
        a.succ.append((b, label))
        b.pred.append((a, label))

    def _connect(self, preds, node):
        for p, lab in preds:
            self._edge(p, node, lab)

    def _seq(self, stmts, preds):
        for s in stmts:
            preds = self._stmt(s, preds)
        return preds

    def _raise_to(self, node, excname):
        """Connect a raising node to the handler(s) that may catch it, else to raise_exit."""
        for level in reversed(self._tries):
            caught = False
            for hnode in level:
                c = handler_catches(hnode.ast, excname)
                if c is True:
                    self._edge(node, hnode, 'exc')
                    caught = True
                    break
                if c is None:
                    self._edge(node, hnode, 'exc')
            if caught:
                return
        self._edge(node, self.raise_exit, 'raise')

    def _stmt(self, s, preds):
        if isinstance(s, ast.If):
            t = self._new('test', s)
            self._connect(preds, t)
            out = self._seq(s.body, [(t, True)])
            if s.orelse:
                out += self._seq(s.orelse, [(t, False)])
            else:
                out.append((t, False))
            return out
        if isinstance(s, (ast.For, ast.AsyncFor)):
            h = self._new('for', s)
            h.defs = list(target_names(s.target))
            self._connect(preds, h)
            ctx = {'head': h, 'breaks': []}
            self._loops.append(ctx)
            body_out = self._seq(s.body, [(h, 'iter')])
            self._loops.pop()
            self._connect(body_out, h)
            out = self._seq(s.orelse, [(h, 'done')]) if s.orelse else [(h, 'done')]
            return out + ctx['breaks']
        if isinstance(s, ast.While):
            t = self._new('test', s)
            self._connect(preds, t)
            ctx = {'head': t, 'breaks': []}
            self._loops.append(ctx)
            body_out = self._seq(s.body, [(t, True)])
            self._loops.pop()
            self._connect(body_out, t)
            const_true = isinstance(s.test, ast.Constant) and bool(s.test.value)
            out = []
            if not const_true:
                out = self._seq(s.orelse, [(t, False)]) if s.orelse else [(t, False)]
            return out + ctx['breaks']
        if isinstance(s, ast.Break):
            n = self._new('stmt', s)
            self._connect(preds, n)
            self._loops[-1]['breaks'].append((n, 'break'))
            return []
        if isinstance(s, ast.Continue):
            n = self._new('stmt', s)
            self._connect(preds, n)
            self._edge(n, self._loops[-1]['head'], 'continue')
            return []
        if isinstance(s, ast.Return):
            n = self._new('return', s)
            self._connect(preds, n)
            self._edge(n, self.exit, 'return')
            return []
        if isinstance(s, ast.Raise):
            n = self._new('raise', s)
            self._connect(preds, n)
            exc = s.exc
            if isinstance(exc, ast.Call):
                exc = exc.func
            name = exc.id if isinstance(exc, ast.Name) else (exc.attr if isinstance(exc, ast.Attribute) else None)
            self._raise_to(n, name)
            return []
        if isinstance(s, (ast.With, ast.AsyncWith)):
            n = self._new('with', s)
            for it in s.items:
                if it.optional_vars is not None:
                    n.defs.extend(target_names(it.optional_vars))
            self._connect(preds, n)
            return self._seq(s.body, [(n, 'next')])
        if isinstance(s, ast.Try) or s.__class__.__name__ == 'TryStar':
            hnodes = []
            # handler nodes are created in the *outer* try context
            for h in s.handlers:
                hn = self._new('handler', h)
                if h.name:
                    hn.defs = [h.name]
                hnodes.append(hn)
            join = self._new('join', s)
            self._connect(preds, join)
            self._tries.append(hnodes)
            body_out = self._seq(s.body, [(join, 'next')])
            self._tries.pop()
            # implicit exceptions: every node of the try body may jump to every handler
            for n in self.nodes:
                if n.handlers and n.handlers[-1:] == hnodes[-1:] and n.handlers == hnodes and n.kind not in ('raise',):
                    for hn in hnodes:
                        self._edge(n, hn, 'exc')
            for hn in hnodes:
                self._edge(join, hn, 'exc')
            else_out = self._seq(s.orelse, body_out) if s.orelse else body_out
            out = list(else_out)
            for hn in hnodes:
                out += self._seq(hn.ast.body, [(hn, 'next')])
            if s.finalbody:
                out = self._seq(s.finalbody, out)
            return out
        # simple statement
        n = self._new('stmt', s)
        n.defs = _store_names(s)
        self._connect(preds, n)
        if isinstance(s, ast.Assert):
            pass
        return [(n, 'next')]

    # ------------------------------------------------------------ queries
    def node_of(self, astnode):
        return self.by_ast.get(astnode)

    def stmt_node_containing(self, expr):
        """CFG node whose statement (header) contains the expression `expr`."""
        from .loader import parents
        if expr in self.by_ast:
            return self.by_ast[expr]
        prev = expr
        for p in parents(expr):
            if p in self.by_ast:
                n = self.by_ast[p]
                # for compound statements make sure expr is in the header, not the body
                if n.kind in ('test', 'for', 'with'):
                    hdr = n.exprs()
                    ok = any(prev is h or any(prev is x for x in ast.walk(h)) for h in hdr)
                    if isinstance(p, (ast.For, ast.AsyncFor)) and (prev is p.target):
                        ok = True
                    if isinstance(p, (ast.With, ast.AsyncWith)) and any(prev is i for i in p.items):
                        ok = True
                    if not ok:
                        prev = p
                        continue
                return n
            if p is self.func.node:
                return None
            prev = p
        return None

    def _dominators(self, start, succ_attr):
        nodes = self.nodes
        allset = set(range(len(nodes)))
        dom = {n.id: set(allset) for n in nodes}
        dom[start.id] = {start.id}
        changed = True
        pred_attr = 'pred' if succ_attr == 'succ' else 'succ'
        order = self._order(start, succ_attr)
        reach = set(o.id for o in order)
        while changed:
            changed = False
            for n in order:
                if n is start:
                    continue
                ps = [p for p, _ in getattr(n, pred_attr) if p.id in reach]
                if ps:
                    new = set.intersection(*[dom[p.id] for p in ps]) | {n.id}
                else:
                    new = {n.id}
                if new != dom[n.id]:
                    dom[n.id] = new
                    changed = True
        for n in nodes:
            if n.id not in reach:
                dom[n.id] = {n.id}
        return dom

    def _order(self, start, succ_attr):
        seen, out, stack = set(), [], [start]
        while stack:
            n = stack.pop()
            if n.id in seen:
                continue
            seen.add(n.id)
            out.append(n)
            for s, _ in getattr(n, succ_attr):
                stack.append(s)
        return out

    def dominates(self, a, b):
        """Every path from entry to b passes a."""
        if self._dom is None:
            self._dom = self._dominators(self.entry, 'succ')
        return a.id in self._dom[b.id]

    def postdominates(self, a, b, include_raise=False):
        """Every path from b to the normal exit passes a."""
        if self._pdom is None:
            self._pdom = self._dominators(self.exit, 'pred')
        return a.id in self._pdom[b.id]

    def reachable(self, src, avoid=(), labels_skip=()):
        """Nodes reachable from src (exclusive) without passing through nodes in `avoid`."""
        avoid = set(n.id for n in avoid)
        seen, stack = set(), [s for s, lab in src.succ if lab not in labels_skip]
        while stack:
            n = stack.pop()
            if n.id in seen or n.id in avoid:
                continue
            seen.add(n.id)
            for s, lab in n.succ:
                if lab not in labels_skip:
                    stack.append(s)
        return [self.nodes[i] for i in sorted(seen)]

    def can_reach(self, src, dst, avoid=(), labels_skip=()):
        return any(n is dst for n in self.reachable(src, avoid, labels_skip))

    def reachable_nodes(self):
        return self._order(self.entry, 'succ')

    # ------------------------------------------------------------ reaching definitions
    def reaching_defs(self):
        """node id -> {var: set(def node ids)} holding at node entry. A 'definition' of the
        parameters is the entry node."""
        if self._rd is not None:
            return self._rd
        IN = {n.id: {} for n in self.nodes}
        OUT = {n.id: {} for n in self.nodes}
        work = list(self.reachable_nodes())
        inwork = set(n.id for n in work)
        while work:
            n = work.pop(0)
            inwork.discard(n.id)
            newin = {}
            for p, _ in n.pred:
                for v, ds in OUT[p.id].items():
                    newin.setdefault(v, set()).update(ds)
            IN[n.id] = newin
            newout = {v: set(ds) for v, ds in newin.items()}
            for v in n.defs:
                newout[v] = {n.id}
            if newout != OUT[n.id]:
                OUT[n.id] = newout
                for s, _ in n.succ:
                    if s.id not in inwork:
                        work.append(s)
                        inwork.add(s.id)
        self._rd = IN
        return IN

    def defs_reaching(self, node, var):
        return sorted(self.reaching_defs()[node.id].get(var, ()))

    def maybe_unbound(self, node, var):
        """True if some path from entry reaches `node` without any definition of var."""
        # forward reachability avoiding definition nodes
        defnodes = [n for n in self.nodes if var in n.defs]
        if self.entry in defnodes:
            return False
        if node is self.entry:
            return True
        return self.can_reach(self.entry, node, avoid=[d for d in defnodes if d is not node]) and \
            not (var in node.defs and False)
