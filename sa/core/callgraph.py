"""Resolved call graph with class-hierarchy analysis, and closures of API entry points."""
import ast
from .loader import FuncInfo, walk_scope


class CallGraph:
    def __init__(self, prog):
        self.prog = prog
        self.edges = {}        # caller qualname -> set of callee qualnames
        self.sites = {}        # caller qualname -> list of (call node, [callee qualnames])
        self.unresolved = {}   # caller qualname -> list of call text
        self.methods_by_name = {}
        for c in prog.classes.values():
            for name, m in c.methods.items():
                self.methods_by_name.setdefault(name.split('.')[0], []).append(m)
        for f in prog.funcs.values():
            self._scan(f)

    def _scan(self, f):
        P = self.prog
        edges, sites, unres = set(), [], []
        for n in walk_scope(f.node):
            targets = []
            if isinstance(n, ast.Call):
                targets = self.resolve_call(f, n)
                sites.append((n, targets))
                if not targets:
                    unres.append(ast.unparse(n.func))
            elif isinstance(n, (ast.For, ast.AsyncFor)):
                # iterator protocol on package classes
                targets = [m.qualname for nm in ('__iter__', '__next__') for m in self.methods_by_name.get(nm, [])
                           ] if self._may_be_package_iterable(f, n.iter) else []
            elif isinstance(n, ast.Attribute) and isinstance(n.ctx, ast.Load):
                # property getters
                for m in self.methods_by_name.get(n.attr, []):
                    if m.kind == 'property':
                        if isinstance(n.value, ast.Name) and n.value.id == 'self' and f.cls is not None:
                            mm = f.cls.find_method(n.attr)
                            if mm is not None and mm.kind == 'property':
                                targets.append(mm.qualname)
                                continue
                            # subclass override
                            for sc in f.cls.subclasses():
                                if n.attr in sc.methods and sc.methods[n.attr].kind == 'property':
                                    targets.append(sc.methods[n.attr].qualname)
                        else:
                            targets.append(m.qualname)
            elif isinstance(n, (ast.FunctionDef, ast.AsyncFunctionDef)):
                q = f.qualname + '.<locals>.' + n.name
                if q in P.funcs:
                    targets = [q]
            edges.update(targets)
        self.edges[f.qualname] = edges
        self.sites[f.qualname] = sites
        self.unresolved[f.qualname] = unres

    def _may_be_package_iterable(self, f, it):
        if isinstance(it, ast.Call) and isinstance(it.func, ast.Name) and it.func.id in ('enumerate', 'zip', 'iter'):
            return any(self._may_be_package_iterable(f, a) for a in it.args)
        if isinstance(it, ast.Name):
            return it.id in ('forecast', 'self', 'catalogs', 'forecasts') or it.id in f.params and 'forecast' in it.id
        return False

    def resolve_call(self, f, call):
        P = self.prog
        fn = call.func
        out = []
        c = P.canon(f, fn)
        if c is not None:
            if c in P.funcs:
                return [c]
            if c in P.classes:
                ci = P.classes[c]
                m = ci.find_method('__init__')
                return [m.qualname] if m else []
            # Class.method via alias chain e.g. csep.core.catalogs.CSEPCatalog.load_ascii_catalogs
            head, _, tail = c.rpartition('.')
            if head in P.classes:
                m = P.classes[head].find_method(tail)
                if m is not None:
                    return [m.qualname]
            return []
        if isinstance(fn, ast.Attribute):
            recv, name = fn.value, fn.attr
            if isinstance(recv, ast.Name) and recv.id in ('self', 'cls') and f.cls is not None:
                m = f.cls.find_method(name)
                res = [m.qualname] if m is not None else []
                for sc in f.cls.subclasses(strict=True):
                    if name in sc.methods:
                        res.append(sc.methods[name].qualname)
                if res:
                    return res
            if isinstance(recv, ast.Call) and isinstance(recv.func, ast.Name) and recv.func.id == 'super' and f.cls:
                for c2 in f.cls.mro()[1:]:
                    if name in c2.methods:
                        return [c2.methods[name].qualname]
                return []
            # CHA: all package classes defining the method
            return [m.qualname for m in self.methods_by_name.get(name, [])
                    if m.kind not in ('setter', 'deleter')]
        if isinstance(fn, ast.Subscript):
            # dict dispatch: mapping[key](...)
            base = fn.value
            if isinstance(base, ast.Name):
                for n in walk_scope(f.node):
                    if isinstance(n, ast.Assign) and any(isinstance(t, ast.Name) and t.id == base.id for t in n.targets) \
                            and isinstance(n.value, ast.Dict):
                        for v in n.value.values:
                            c = P.canon(f, v)
                            if c in P.funcs:
                                out.append(c)
                            elif c is not None:
                                head, _, tail = c.rpartition('.')
                                if head in P.classes:
                                    m = P.classes[head].find_method(tail)
                                    if m is not None:
                                        out.append(m.qualname)
            return out
        if isinstance(fn, ast.Name):
            # local variable holding a callable: look for assignments from a parameter default etc.
            return []
        return out

    def closure(self, roots, stop=()):
        seen, todo = set(), [r for r in roots]
        while todo:
            q = todo.pop()
            if q in seen or q in stop:
                continue
            if q not in self.prog.funcs:
                continue
            seen.add(q)
            todo.extend(self.edges.get(q, ()))
        return seen

    def callers_of(self, qual):
        return sorted(c for c, es in self.edges.items() if qual in es)

    def call_sites_of(self, qual):
        """[(caller FuncInfo, call node)] of all resolved call sites targeting `qual`."""
        out = []
        for c, sites in self.sites.items():
            for node, targets in sites:
                if qual in targets:
                    out.append((self.prog.funcs[c], node))
        return out
