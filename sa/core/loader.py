"""Program model: parse every module of the package under analysis, build symbol tables,
class table with MRO, qualified function index (methods and nested functions included) and a
name resolver that turns attribute chains into canonical dotted names (import aliases resolved).

Nothing of the analysed package is ever imported or executed here.
"""
import ast
import builtins
import os
import warnings

BUILTINS = set(dir(builtins))


class AnchorMissing(Exception):
    """An anchor (function, class, table literal) the rule needs is not in the tree -> exit 2."""


class Inconclusive(Exception):
    """The analysis met an idiom it does not understand inside a claimed clause -> exit 2."""


def set_parents(tree):
    for node in ast.walk(tree):
        for ch in ast.iter_child_nodes(node):
            ch._parent = node
    tree._parent = None


def parents(node):
    p = getattr(node, '_parent', None)
    while p is not None:
        yield p
        p = getattr(p, '_parent', None)


SCOPE_NODES = (ast.FunctionDef, ast.AsyncFunctionDef, ast.Lambda, ast.ClassDef,
               ast.ListComp, ast.SetComp, ast.DictComp, ast.GeneratorExp)


def walk_scope(node):
    """Walk the body of a function/module without descending into nested scopes
    (nested defs/classes/lambdas/comprehensions are yielded but not entered)."""
    stack = list(ast.iter_child_nodes(node))
    while stack:
        n = stack.pop()
        yield n
        if isinstance(n, SCOPE_NODES):
            # decorators / defaults / bases are evaluated in the enclosing scope
            if isinstance(n, (ast.FunctionDef, ast.AsyncFunctionDef)):
                stack.extend(n.decorator_list)
                stack.extend(n.args.defaults)
                stack.extend([d for d in n.args.kw_defaults if d is not None])
            elif isinstance(n, ast.ClassDef):
                stack.extend(n.decorator_list)
                stack.extend(n.bases)
            elif isinstance(n, ast.Lambda):
                stack.extend(n.args.defaults)
            else:
                # first iterable of a comprehension is evaluated in the enclosing scope
                stack.append(n.generators[0].iter)
            continue
        stack.extend(ast.iter_child_nodes(n))


def target_names(t):
    """Names bound by an assignment target."""
    if isinstance(t, ast.Name):
        yield t.id
    elif isinstance(t, (ast.Tuple, ast.List)):
        for e in t.elts:
            yield from target_names(e)
    elif isinstance(t, ast.Starred):
        yield from target_names(t.value)


class ClassInfo:
    def __init__(self, prog, module, node, qualname, short):
        self.prog, self.module, self.node = prog, module, node
        self.qualname, self.short = qualname, short
        self.methods = {}
        self.base_names = []   # canonical dotted names

    def mro(self):
        out, seen, todo = [], set(), [self]
        while todo:
            c = todo.pop(0)
            if c.qualname in seen:
                continue
            seen.add(c.qualname)
            out.append(c)
            for b in c.base_names:
                bc = self.prog.classes.get(b)
                if bc is not None:
                    todo.append(bc)
        return out

    def find_method(self, name):
        for c in self.mro():
            if name in c.methods:
                return c.methods[name]
        return None

    def subclasses(self, strict=False):
        out = []
        for c in self.prog.classes.values():
            if c is self and strict:
                continue
            if self in c.mro():
                out.append(c)
        return out


class FuncInfo:
    def __init__(self, prog, module, node, qualname, short, cls=None, parent=None):
        self.prog, self.module, self.node = prog, module, node
        self.qualname, self.short = qualname, short
        self.cls, self.parent = cls, parent
        self.kind = 'function'
        for d in getattr(node, 'decorator_list', []):
            if isinstance(d, ast.Name) and d.id in ('property', 'classmethod', 'staticmethod'):
                self.kind = d.id
            elif isinstance(d, ast.Attribute) and d.attr in ('setter', 'getter', 'deleter'):
                self.kind = d.attr
        self._locals = None
        self._cfg = None
        self._limports = None

    # ---- signature
    @property
    def params(self):
        a = self.node.args
        return [x.arg for x in a.posonlyargs + a.args] + \
               ([a.vararg.arg] if a.vararg else []) + [x.arg for x in a.kwonlyargs] + \
               ([a.kwarg.arg] if a.kwarg else [])

    @property
    def positional_params(self):
        a = self.node.args
        return [x.arg for x in a.posonlyargs + a.args]

    def defaults(self):
        """param name -> default AST node."""
        a = self.node.args
        out = {}
        pos = a.posonlyargs + a.args
        for p, d in zip(pos[len(pos) - len(a.defaults):], a.defaults):
            out[p.arg] = d
        for p, d in zip(a.kwonlyargs, a.kw_defaults):
            if d is not None:
                out[p.arg] = d
        return out

    @property
    def is_generator(self):
        for n in walk_scope(self.node):
            if isinstance(n, (ast.Yield, ast.YieldFrom)):
                return True
        return False

    # ---- scope
    @property
    def locals(self):
        if self._locals is None:
            loc = set(self.params)
            glob = set()
            for n in walk_scope(self.node):
                if isinstance(n, ast.Name) and isinstance(n.ctx, (ast.Store, ast.Del)):
                    loc.add(n.id)
                elif isinstance(n, (ast.FunctionDef, ast.AsyncFunctionDef, ast.ClassDef)):
                    loc.add(n.name)
                elif isinstance(n, (ast.Import, ast.ImportFrom)):
                    for al in n.names:
                        loc.add((al.asname or al.name).split('.')[0])
                elif isinstance(n, ast.ExceptHandler) and n.name:
                    loc.add(n.name)
                elif isinstance(n, (ast.Global, ast.Nonlocal)):
                    glob.update(n.names)
                elif isinstance(n, ast.NamedExpr):
                    loc.update(target_names(n.target))
            self._locals = loc - glob
            self._globals_decl = glob
        return self._locals

    def local_imports(self):
        if getattr(self, '_limports', None) is None:
            out = {}
            for n in walk_scope(self.node):
                if isinstance(n, (ast.Import, ast.ImportFrom)):
                    out.update(_import_aliases(n, self.module.name, self.module.is_pkg))
            self._limports = out
        return self._limports

    @property
    def cfg(self):
        if self._cfg is None:
            from .cfg import CFG
            self._cfg = CFG(self)
        return self._cfg

    def loc(self, node=None):
        node = node or self.node
        return '%s:%d' % (self.module.relpath, getattr(node, 'lineno', 0))

    def __repr__(self):
        return '<func %s>' % self.qualname


def _import_aliases(node, modname, is_pkg):
    out = {}
    if isinstance(node, ast.Import):
        for al in node.names:
            if al.asname:
                out[al.asname] = al.name
            else:
                root = al.name.split('.')[0]
                out[root] = root
    else:
        base = node.module or ''
        if node.level:
            parts = modname.split('.')
            if not is_pkg:
                parts = parts[:-1]
            parts = parts[:len(parts) - (node.level - 1)]
            base = '.'.join(parts + ([node.module] if node.module else []))
        for al in node.names:
            if al.name == '*':
                continue
            out[al.asname or al.name] = base + '.' + al.name
    return out


class Module:
    def __init__(self, prog, name, path, relpath, is_pkg):
        self.prog, self.name, self.path, self.relpath, self.is_pkg = prog, name, path, relpath, is_pkg
        with open(path, encoding='utf-8') as f:
            self.src = f.read()
        with warnings.catch_warnings():
            warnings.simplefilter('ignore')
            self.tree = ast.parse(self.src, filename=path)
        set_parents(self.tree)
        self.imports = {}
        self.toplevel = {}      # name -> kind
        self.assigns = {}       # module level name -> value node (last one)
        for n in walk_scope(self.tree):
            if isinstance(n, (ast.Import, ast.ImportFrom)):
                self.imports.update(_import_aliases(n, name, is_pkg))
            elif isinstance(n, (ast.FunctionDef, ast.AsyncFunctionDef)):
                self.toplevel[n.name] = 'func'
            elif isinstance(n, ast.ClassDef):
                self.toplevel[n.name] = 'class'
            elif isinstance(n, ast.Name) and isinstance(n.ctx, ast.Store):
                self.toplevel.setdefault(n.id, 'var')
            elif isinstance(n, ast.ExceptHandler) and n.name:
                self.toplevel.setdefault(n.name, 'var')
        for n in self.tree.body:
            if isinstance(n, ast.Assign) and len(n.targets) == 1 and isinstance(n.targets[0], ast.Name):
                self.assigns[n.targets[0].id] = n.value

    def segment(self, node):
        return ast.get_source_segment(self.src, node) or ast.unparse(node)


class Program:
    def __init__(self, root, package='csep', normalize=None):
        self.root, self.package = root, package
        self.modules, self.funcs, self.classes = {}, {}, {}
        self.alias = {}
        self.normalization = {}
        pkgdir = os.path.join(root, package)
        if not os.path.isdir(pkgdir):
            raise AnchorMissing('package directory %s not found' % pkgdir)
        for dirpath, dirnames, filenames in os.walk(pkgdir):
            dirnames[:] = sorted(d for d in dirnames if d != '__pycache__' and d != 'artifacts')
            for fn in sorted(filenames):
                if not fn.endswith('.py'):
                    continue
                path = os.path.join(dirpath, fn)
                rel = os.path.relpath(path, root)
                parts = rel[:-3].split(os.sep)
                is_pkg = parts[-1] == '__init__'
                if is_pkg:
                    parts = parts[:-1]
                name = '.'.join(parts)
                self.modules[name] = Module(self, name, path, rel, is_pkg)
        if normalize is None:
            normalize = os.environ.get('SA_NO_NORMALIZE') != '1'
        if normalize:
            # canonicalising pre-pass against the reference tree (renamed helpers / locals, extracted helpers)
            from . import normalize as _norm
            _norm.apply(self)
            _norm.spelling(self)
            for m in self.modules.values():
                set_parents(m.tree)
        for m in self.modules.values():
            self._index(m, m.tree, m.name, '', None, None)
        for c in self.classes.values():
            for b in c.node.bases:
                nm = self.canon_in_module(c.module, b)
                c.base_names.append(nm or ast.unparse(b))
        if normalize:
            _norm.positional_prefix(self)

    def _index(self, module, node, qprefix, sprefix, cls, parentfunc):
        for n in node.body if hasattr(node, 'body') else []:
            self._index_stmt(module, n, qprefix, sprefix, cls, parentfunc)

    def _index_stmt(self, module, n, qprefix, sprefix, cls, parentfunc):
        if isinstance(n, (ast.FunctionDef, ast.AsyncFunctionDef)):
            short = sprefix + n.name
            qual = qprefix + '.' + n.name
            if qual in self.alias:
                # a renamed / moved helper answers to the name it had on the reference tree
                qual = self.alias[qual]
                short = qual[len(module.name) + 1:]
            # property setter shares the name with the getter: keep both
            fi = FuncInfo(self, module, n, qual, short, cls=cls, parent=parentfunc)
            if fi.kind in ('setter', 'deleter'):
                qual += '.' + fi.kind
                fi.qualname = qual
                fi.short = short + '.' + fi.kind
            self.funcs[qual] = fi
            if cls is not None and parentfunc is None:
                if fi.kind in ('setter', 'deleter'):
                    cls.methods[n.name + '.' + fi.kind] = fi
                else:
                    cls.methods[n.name] = fi
                    cls.methods.setdefault(qual.split('.')[-1], fi)
            self._index_nested(module, n, qual + '.<locals>', short + '.<locals>.', fi)
        elif isinstance(n, ast.ClassDef):
            short = sprefix + n.name
            qual = qprefix + '.' + n.name
            ci = ClassInfo(self, module, n, qual, short)
            self.classes[qual] = ci
            for b in n.body:
                self._index_stmt(module, b, qual, short + '.', ci, None)
        elif isinstance(n, (ast.If, ast.Try, ast.With, ast.For, ast.While)):
            for field in ('body', 'orelse', 'finalbody'):
                for b in getattr(n, field, []):
                    self._index_stmt(module, b, qprefix, sprefix, cls, parentfunc)
            for h in getattr(n, 'handlers', []):
                for b in h.body:
                    self._index_stmt(module, b, qprefix, sprefix, cls, parentfunc)

    def _index_nested(self, module, funcnode, qprefix, sprefix, parentfunc):
        for n in walk_scope(funcnode):
            if isinstance(n, (ast.FunctionDef, ast.AsyncFunctionDef)):
                qual = qprefix + '.' + n.name
                qual = self.alias.get(qual, qual)
                fi = FuncInfo(self, module, n, qual, sprefix + n.name, cls=parentfunc.cls, parent=parentfunc)
                self.funcs[qual] = fi
                self._index_nested(module, n, qual + '.<locals>', sprefix + n.name + '.<locals>.', fi)
            elif isinstance(n, ast.ClassDef):
                qual = qprefix + '.' + n.name
                ci = ClassInfo(self, module, n, qual, sprefix + n.name)
                ci.enclosing_func = parentfunc
                self.classes[qual] = ci
                for b in n.body:
                    self._index_stmt(module, b, qual, sprefix + n.name + '.', ci, None)

    # ------------------------------------------------------------------ lookup
    def func(self, qual):
        f = self.funcs.get(qual)
        if f is None:
            raise AnchorMissing('function %s not found' % qual)
        return f

    def cls(self, qual):
        c = self.classes.get(qual)
        if c is None:
            raise AnchorMissing('class %s not found' % qual)
        return c

    def module(self, name):
        m = self.modules.get(name)
        if m is None:
            raise AnchorMissing('module %s not found' % name)
        return m

    def funcs_in(self, modname):
        return [f for f in self.funcs.values() if f.module.name == modname]

    def enclosing_func(self, module, node):
        for p in parents(node):
            if isinstance(p, (ast.FunctionDef, ast.AsyncFunctionDef)):
                for f in self.funcs.values():
                    if f.node is p:
                        return f
        return None

    # ------------------------------------------------------------------ resolution
    def resolve_global(self, name):
        """Follow re-exports: 'csep.core.catalogs.bin1d_vec' -> 'csep.utils.calc.bin1d_vec'."""
        seen = set()
        while name not in seen:
            seen.add(name)
            if name in self.alias:
                return self.alias[name]
            if name in self.funcs or name in self.classes or name in self.modules:
                return name
            head, _, tail = name.rpartition('.')
            # find the longest module prefix
            parts = name.split('.')
            for i in range(len(parts) - 1, 0, -1):
                mod = '.'.join(parts[:i])
                if mod in self.modules:
                    m = self.modules[mod]
                    nxt = parts[i]
                    rest = parts[i + 1:]
                    if nxt in m.imports and m.toplevel.get(nxt) not in ('func', 'class'):
                        name2 = '.'.join([m.imports[nxt]] + rest)
                        if name2 != name:
                            name = name2
                            break
                    return name
            else:
                return name
        return name

    def canon_name(self, func, ident):
        """Canonical dotted name of a bare identifier used inside `func` (FuncInfo) or None when it
        is a local variable. `func` may be a Module for module-level code."""
        scope = func
        module = func if isinstance(func, Module) else func.module
        while isinstance(scope, FuncInfo):
            if ident in scope.locals:
                li = scope.local_imports()
                if ident in li:
                    return self.resolve_global(li[ident])
                # nested function or class defined locally
                q = scope.qualname + '.<locals>.' + ident
                q = self.alias.get(q, q)
                if q in self.funcs or q in self.classes:
                    return q
                return None
            scope = scope.parent
        if ident in module.imports and module.toplevel.get(ident) not in ('func', 'class'):
            return self.resolve_global(module.imports[ident])
        if ident in module.toplevel:
            q = module.name + '.' + ident
            return self.alias.get(q, q)
        if ident in BUILTINS:
            return 'builtins.' + ident
        return '?undefined.' + ident

    def canon(self, func, expr):
        """Canonical dotted name for a Name / Attribute chain, or None if rooted at a local value."""
        chain = []
        e = expr
        while isinstance(e, ast.Attribute):
            chain.append(e.attr)
            e = e.value
        if not isinstance(e, ast.Name):
            return None
        root = self.canon_name(func, e.id)
        if root is None:
            return None
        name = '.'.join([root] + chain[::-1])
        name = self.resolve_global(name)
        return self.alias.get(name, name)

    def canon_in_module(self, module, expr):
        return self.canon(module, expr)

    def func_of_node(self, fnode):
        for f in self.funcs.values():
            if f.node is fnode:
                return f
        return None


def const_value(node):
    """Python value of a literal AST (numbers, strings, None, bools, tuples thereof, unary minus)."""
    try:
        return ast.literal_eval(node)
    except Exception:
        return NotImplemented
