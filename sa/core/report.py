"""Obligation bookkeeping, evidence, known findings and the exit protocol.

exit 0: every claimed clause holds on everything analysed (KNOWN-FINDING lines allowed)
exit 1: at least one unlisted violation; one `VIOLATION property=<id> replay=<path>` line each
exit 2: analysis broken / inconclusive (`ANALYSIS-ERROR property=<id> ...`), never a VIOLATION
"""
import ast
import json
import os
import re
import sys
import time
import traceback

from .loader import AnchorMissing, Inconclusive, FuncInfo

VERIF = os.path.dirname(os.path.dirname(os.path.dirname(os.path.abspath(__file__))))


def norm_construct(c):
    if isinstance(c, ast.AST):
        try:
            c = ast.unparse(c)
        except Exception:
            c = type(c).__name__
    c = re.sub(r'\s+', ' ', str(c)).strip()
    return c[:300]


class Obligation:
    __slots__ = ('rule', 'where', 'construct', 'loc', 'status', 'detail', 'clause')

    def __init__(self, rule, where, construct, loc, clause):
        self.rule, self.where, self.construct, self.loc, self.clause = rule, where, construct, loc, clause
        self.status, self.detail = 'open', ''

    @property
    def key(self):
        return '%s|%s|%s' % (self.rule, self.where, self.construct)

    def ok(self, how=''):
        if self.status == 'open':
            self.status, self.detail = 'discharged', how
        return self

    def fail(self, why):
        self.status, self.detail = 'violated', why
        return self

    def unknown(self, why):
        if self.status != 'violated':
            self.status, self.detail = 'inconclusive', why
        return self

    def to_json(self):
        return {'rule': self.rule, 'clause': self.clause, 'where': self.where, 'construct': self.construct,
                'loc': self.loc, 'verdict': self.status, 'detail': self.detail}


class Checker:
    def __init__(self, pid, tier, prog, cg=None, explanation='', clauses=None, trusted=None, quiet=False):
        self.pid, self.tier, self.prog, self.cg = pid, tier, prog, cg
        self.t0 = time.time()
        self.obs = []
        self.errors = []
        self.notes = []
        self.explanation = explanation
        self.clauses = clauses or {}
        self.trusted = trusted or []
        self.closure = set()
        self.quiet = quiet
        self.extra = {}
        self._clause = ''

    # ------------------------------------------------------------------ obligations
    def clause(self, name):
        self._clause = name

    def ob(self, rule, where, construct, node=None):
        if isinstance(where, FuncInfo):
            w = where.qualname
            loc = where.loc(node) if node is not None else where.loc()
        else:
            w = str(where)
            loc = ''
            if node is not None and hasattr(node, 'lineno'):
                loc = 'L%d' % node.lineno
        o = Obligation(rule, w, norm_construct(construct), loc, self._clause)
        self.obs.append(o)
        return o

    def require(self, cond, rule, where, construct, why_fail, node=None, how=''):
        o = self.ob(rule, where, construct, node)
        if cond:
            o.ok(how)
        else:
            o.fail(why_fail)
        return o

    def anchor(self, qual):
        return self.prog.func(qual)

    def error(self, msg):
        self.errors.append(msg)

    def note(self, msg):
        self.notes.append(msg)

    def guard(self, fn, *a, **k):
        """Run one rule; AnchorMissing / Inconclusive / unexpected exceptions become analysis errors."""
        try:
            return fn(self, *a, **k)
        except AnchorMissing as e:
            self.error('anchor missing in %s: %s' % (fn.__name__, e))
        except Inconclusive as e:
            self.error('inconclusive in %s: %s' % (fn.__name__, e))
        except Exception as e:
            tb = traceback.format_exc(limit=6)
            self.error('internal error in %s: %r\n%s' % (fn.__name__, e, tb))

    # ------------------------------------------------------------------ results
    def violations(self):
        return [o for o in self.obs if o.status == 'violated']

    def inconclusive(self):
        return [o for o in self.obs if o.status in ('inconclusive', 'open')]

    def rule_counts(self):
        c = {}
        for o in self.obs:
            c[o.rule] = c.get(o.rule, 0) + 1
        return c


def load_known(pid):
    known, fixed = {}, []
    path = os.path.join(VERIF, 'known_findings.txt')
    if not os.path.exists(path):
        return known, fixed
    for line in open(path, encoding='utf-8'):
        line = line.rstrip('\n')
        if line.startswith('KNOWN-FINDING:'):
            m = re.match(r'KNOWN-FINDING:\s+property=(\S+)\s+key=(.*?)\s+::\s+(.*)$', line)
            if m and m.group(1) == pid:
                known[m.group(2).strip()] = m.group(3)
        elif line.startswith('fixed:'):
            m = re.match(r'fixed:\s+property=(\S+)\s+(.*)$', line)
            if m and m.group(1) == pid:
                fixed.append(m.group(2))
    return known, fixed


def load_floors(pid):
    path = os.path.join(VERIF, 'sa', 'tables', 'floors.json')
    if not os.path.exists(path):
        return {}
    with open(path) as f:
        return json.load(f).get(pid, {})


def finish(ck, replay=None, write=True, evidence_dir=None, stream=None):
    """Write evidence, print verdict lines, return the exit code."""
    out = stream or sys.stdout
    pid = ck.pid
    known, fixed = load_known(pid)
    floors = load_floors(pid)
    counts = ck.rule_counts()
    for rule, floor in floors.items():
        if rule.startswith('_'):
            continue
        if counts.get(rule, 0) < floor:
            ck.error('rule %s matched %d instance(s), below the confirmed floor of %d: the anchors moved or the '
                     'rule lost its grip' % (rule, counts.get(rule, 0), floor))
    viol, seen_keys = [], set()
    for o in ck.violations():
        if o.key not in seen_keys:
            seen_keys.add(o.key)
            viol.append(o)
    listed = [o for o in viol if o.key in known]
    unlisted = [o for o in viol if o.key not in known]
    inconc = ck.inconclusive()
    evdir = evidence_dir or os.path.join(VERIF, 'evidence')
    os.makedirs(os.path.join(evdir, 'replay'), exist_ok=True)
    replay_paths = []
    if write:
        for old in os.listdir(os.path.join(evdir, 'replay')):
            if old.startswith(pid + '-'):
                try:
                    os.remove(os.path.join(evdir, 'replay', old))
                except OSError:
                    pass
    for i, o in enumerate(unlisted):
        rp = os.path.join(evdir, 'replay', '%s-%d.json' % (pid, i + 1))
        if write:
            with open(rp, 'w') as f:
                json.dump({'property': pid, 'key': o.key, **o.to_json()}, f, indent=1)
        replay_paths.append(rp)
    if ck.errors or inconc:
        code = 2
    else:
        code = 0
    if unlisted:
        code = 1
    distinct = set()
    for o in ck.obs:
        if len(o.construct) > 3:
            distinct.add(o.key)
    samples = [o.to_json() for o in ck.obs[:400]]
    ev = {
        'property_id': pid,
        'tier': ck.tier,
        'seed': int(os.environ.get('VERIF_SEED', '0') or 0),
        'level': 'other',
        'coverage': {
            'explanation': ck.explanation,
            'clauses': ck.clauses,
            'obligations': len(ck.obs),
            'discharged': sum(1 for o in ck.obs if o.status == 'discharged'),
            'evaluations': len(ck.obs),
            'distinct_nontrivial': len(distinct),
            'rule': 'one obligation per (rule, function, construct) instance generated from the anchors of the '
                    'property on the current source tree; non-trivial = the construct is a real source expression '
                    '(not a bare anchor-exists fact); distinct = distinct (rule, function, normalised construct) keys',
            'samples': samples,
            'checker_cmd': './check %s --tier %s' % (pid, ck.tier),
            'trusted_base': ck.trusted,
            'rule_instances': counts,
            'floors': floors,
            'files_analysed': len(ck.prog.modules) if ck.prog else 0,
            'functions_in_package': len(ck.prog.funcs) if ck.prog else 0,
            'functions_in_closure': len(ck.closure),
            'call_edges': sum(len(v) for v in ck.cg.edges.values()) if ck.cg else 0,
            'unresolved_calls_in_closure': sum(len(ck.cg.unresolved.get(q, ())) for q in ck.closure) if ck.cg else 0,
            'known_findings': [{'key': o.key, 'note': known[o.key]} for o in listed],
            'fixed_findings': fixed,
            'violations_found': [o.to_json() for o in unlisted],
            'inconclusive': [o.to_json() for o in inconc],
            'analysis_errors': ck.errors,
            'notes': ck.notes,
            'exhaustive': False,
            **ck.extra,
        },
        'assumptions': ck.trusted,
        'wall_s': round(time.time() - ck.t0, 3),
        'violations': len(unlisted),
    }
    if write:
        with open(os.path.join(evdir, '%s.json' % pid), 'w') as f:
            json.dump(ev, f, indent=1, default=str)
    if not ck.quiet:
        print('%s tier=%s obligations=%d discharged=%d violations=%d known=%d inconclusive=%d errors=%d (%.2fs)' % (
            pid, ck.tier, len(ck.obs), ev['coverage']['discharged'], len(unlisted), len(listed), len(inconc),
            len(ck.errors), ev['wall_s']), file=out)
        for o in listed:
            print('KNOWN-FINDING: property=%s %s [%s] %s -- %s' % (pid, o.key, o.loc, known[o.key], o.detail), file=out)
        for o, rp in zip(unlisted, replay_paths):
            print('  violated: %s @ %s in %s: `%s` -- %s' % (o.rule, o.loc, o.where, o.construct, o.detail), file=out)
            print('VIOLATION property=%s replay=%s' % (pid, rp), file=out)
        for o in inconc:
            print('ANALYSIS-ERROR property=%s inconclusive %s @ %s in %s: `%s` -- %s' % (
                pid, o.rule, o.loc, o.where, o.construct, o.detail), file=out)
        for e in ck.errors:
            print('ANALYSIS-ERROR property=%s %s' % (pid, e), file=out)
    return code
