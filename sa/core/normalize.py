"""Canonicalising pre-pass over the module syntax trees (before the program model is indexed).

The rules were confirmed on one tree; `sa/tables/reference.json` remembers, for every function of that tree, an
alpha-normalised structural hash (local names replaced by positions) and the order of its local names.  Against
that reference the pre-pass undoes the three most common *behaviour-preserving* restructurings, so that the rules
see the program in the shape they were confirmed on:

1. renamed or moved private helpers - a function of the reference that is gone, and exactly one new function with
   the same alpha-hash: the new one answers to the old qualified name (`Program.alias`);
2. renamed local variables - a function whose alpha-hash equals the reference but whose (non-parameter) local names
   differ gets the reference names back;
3. extracted helpers - a function that does not exist in the reference (and is not the alias of one that vanished)
   is spliced back into its call sites at statement level (`T = helper(args)`, `return helper(args)`,
   `helper(args)`), provided it is non-recursive, has no generator/varargs and returns only in tail positions.

Nothing here looks at behaviour; a restructuring that does not fit is simply left alone and the rules decide as
before.  On the reference tree itself the pass is the identity.
"""
import ast
import copy
import hashlib
import json
import os

HERE = os.path.dirname(os.path.dirname(os.path.abspath(__file__)))
REFERENCE = os.path.join(HERE, 'tables', 'reference.json')


# ------------------------------------------------------------------------------------------------ function inventory
def iter_functions(tree):
    """(qualname within the module, node, class node or None, parent function node or None)"""
    out = []

    def rec(body, prefix, cls, parent):
        for n in body:
            if isinstance(n, (ast.FunctionDef, ast.AsyncFunctionDef)):
                q = prefix + n.name
                kind = None
                for d in n.decorator_list:
                    if isinstance(d, ast.Attribute) and d.attr in ('setter', 'deleter'):
                        kind = d.attr
                out.append((q + ('.' + kind if kind else ''), n, cls, parent))
                rec_nested(n, q + '.<locals>.', cls, n)
            elif isinstance(n, ast.ClassDef):
                rec(n.body, prefix + n.name + '.', n, None)
            elif isinstance(n, (ast.If, ast.Try, ast.With, ast.For, ast.While)):
                for field in ('body', 'orelse', 'finalbody'):
                    rec(getattr(n, field, []) or [], prefix, cls, parent)
                for h in getattr(n, 'handlers', []):
                    rec(h.body, prefix, cls, parent)

    def rec_nested(fnode, prefix, cls, parent):
        for n in _walk_scope(fnode):
            if isinstance(n, (ast.FunctionDef, ast.AsyncFunctionDef)):
                q = prefix + n.name
                out.append((q, n, cls, parent))
                rec_nested(n, q + '.<locals>.', cls, n)
            elif isinstance(n, ast.ClassDef):
                rec(n.body, prefix + n.name + '.', n, None)
    rec(tree.body, '', None, None)
    return out


def _walk_scope(fnode):
    """nodes of a function body without descending into nested function / class bodies (the nested def itself is yielded)"""
    todo = list(ast.iter_child_nodes(fnode))
    while todo:
        n = todo.pop()
        yield n
        if isinstance(n, (ast.FunctionDef, ast.AsyncFunctionDef, ast.ClassDef, ast.Lambda)):
            continue
        todo.extend(ast.iter_child_nodes(n))


def _strip_docstring(body):
    if body and isinstance(body[0], ast.Expr) and isinstance(body[0].value, ast.Constant) and isinstance(body[0].value.value, str):
        return body[1:] or [ast.Pass()]
    return body


def local_names(fnode):
    """parameters, and the other local names in order of first appearance (pre-order walk of the body)"""
    a = fnode.args
    params = [x.arg for x in a.posonlyargs + a.args] + ([a.vararg.arg] if a.vararg else []) + \
             [x.arg for x in a.kwonlyargs] + ([a.kwarg.arg] if a.kwarg else [])
    seen, order = set(params), []
    declared_global = set()

    def visit(n):
        if isinstance(n, (ast.Global, ast.Nonlocal)):
            declared_global.update(n.names)
        if isinstance(n, ast.Name) and isinstance(n.ctx, (ast.Store, ast.Del)) and n.id not in seen:
            seen.add(n.id)
            order.append(n.id)
        if isinstance(n, ast.ExceptHandler) and n.name and n.name not in seen:
            seen.add(n.name)
            order.append(n.name)
        if isinstance(n, (ast.FunctionDef, ast.AsyncFunctionDef, ast.ClassDef)):
            if n.name not in seen:
                seen.add(n.name)
                order.append(n.name)
            return
        if isinstance(n, ast.Lambda):
            return
        if isinstance(n, (ast.Import, ast.ImportFrom)):
            for al in n.names:
                nm = (al.asname or al.name).split('.')[0]
                if nm not in seen:
                    seen.add(nm)
                    order.append(nm)
        for c in ast.iter_child_nodes(n):
            visit(c)
    for st in fnode.body:
        visit(st)
    order = [x for x in order if x not in declared_global]
    return params, order


class _Alpha(ast.NodeTransformer):
    def __init__(self, mapping, global_alias):
        self.m, self.ga = mapping, global_alias

    def visit_Name(self, n):
        if n.id in self.m:
            return ast.copy_location(ast.Name(id=self.m[n.id], ctx=n.ctx), n)
        return ast.copy_location(ast.Name(id=self.ga.get(n.id, n.id), ctx=n.ctx), n)

    def visit_Attribute(self, n):
        self.generic_visit(n)
        if isinstance(n.value, ast.Name) and n.value.id in ('self', 'cls') or True:
            n.attr = self.ga.get('.' + n.attr, n.attr)
        return n

    def visit_arg(self, n):
        if n.arg in self.m:
            n.arg = self.m[n.arg]
        n.annotation = None
        return n

    def visit_ExceptHandler(self, n):
        self.generic_visit(n)
        if n.name in self.m:
            n.name = self.m[n.name]
        return n

    def visit_FunctionDef(self, n):
        self.generic_visit(n)
        n.body = _strip_docstring(n.body)
        if n.name in self.m:
            n.name = self.m[n.name]
        n.returns = None
        return n


def alpha_hash(fnode, global_alias=None, with_params=True):
    """structural hash of a function: non-parameter locals -> positions, docstrings dropped, function's own name dropped"""
    params, order = local_names(fnode)
    mapping = {nm: '_v%d' % i for i, nm in enumerate(order)}
    node = copy.deepcopy(fnode)
    node.name = '_f'
    node.decorator_list = [d for d in node.decorator_list]
    node = _Alpha(mapping, global_alias or {}).visit(node)
    node.body = _strip_docstring(node.body)
    txt = ast.dump(node, annotate_fields=False, include_attributes=False)
    return hashlib.sha1(txt.encode()).hexdigest()[:16], params, order


# ------------------------------------------------------------------------------------------------ reference table
def build_reference(root, package='csep'):
    ref = {}
    pkgdir = os.path.join(root, package)
    for dirpath, dirnames, filenames in os.walk(pkgdir):
        dirnames[:] = sorted(d for d in dirnames if d not in ('__pycache__', 'artifacts'))
        for fn in sorted(filenames):
            if not fn.endswith('.py'):
                continue
            path = os.path.join(dirpath, fn)
            rel = os.path.relpath(path, root)
            import warnings
            with warnings.catch_warnings():
                warnings.simplefilter('ignore')
                tree = ast.parse(open(path, encoding='utf-8').read())
            funcs = {}
            canonical_local(tree)
            for q, node, cls, parent in iter_functions(tree):
                h, params, order = alpha_hash(node)
                funcs[q] = {'hash': h, 'params': params, 'locals': order}
            funcs['__sha__'] = hashlib.sha1(open(path, 'rb').read()).hexdigest()
            funcs['__consts__'] = sorted(module_names(tree))
            funcs['__classattrs__'] = sorted(class_attr_names(tree))
            ref[rel.replace(os.sep, '/')] = funcs
    return ref


def class_attr_names(tree):
    """'Class.name' for every name bound by an assignment in a class body"""
    out = set()
    for c in ast.walk(tree):
        if isinstance(c, ast.ClassDef):
            for st in c.body:
                if isinstance(st, (ast.Assign, ast.AnnAssign)):
                    for t in (st.targets if isinstance(st, ast.Assign) else [st.target]):
                        if isinstance(t, ast.Name):
                            out.add('%s.%s' % (c.name, t.id))
    return out


def module_names(tree):
    """names bound by assignments at module level"""
    out = set()
    for st in tree.body:
        if isinstance(st, (ast.Assign, ast.AnnAssign, ast.AugAssign)):
            for t in (st.targets if isinstance(st, ast.Assign) else [st.target]):
                for n in ast.walk(t):
                    if isinstance(n, ast.Name):
                        out.add(n.id)
    return out


def _is_literal(e):
    if isinstance(e, ast.Constant):
        return True
    if isinstance(e, ast.UnaryOp) and isinstance(e.op, (ast.USub, ast.UAdd)) and isinstance(e.operand, ast.Constant):
        return True
    if isinstance(e, ast.Tuple):
        return all(_is_literal(x) for x in e.elts)
    return False


def inline_new_constants(tree, known):
    """a module constant that the reference does not have (`_EPSILON = 1e-6` introduced for a magic number) is written back at
    its uses: bound once, at module level, to a literal; never rebound; not shadowed where it is read"""
    stores = {}
    for n in ast.walk(tree):
        if isinstance(n, ast.Name) and not isinstance(n.ctx, ast.Load):
            stores[n.id] = stores.get(n.id, 0) + 1
        elif isinstance(n, (ast.Global, ast.Nonlocal)):
            for x in n.names:
                stores[x] = stores.get(x, 0) + 2
        elif isinstance(n, ast.arg):
            stores[n.arg] = stores.get(n.arg, 0) + 2
    consts = {}
    for st in tree.body:
        if isinstance(st, ast.Assign) and len(st.targets) == 1 and isinstance(st.targets[0], ast.Name) and _is_literal(st.value):
            nm = st.targets[0].id
            if nm not in known and stores.get(nm) == 1 and not (nm.startswith('__') and nm.endswith('__')):
                consts[nm] = st.value
    if not consts:
        return []
    used = set()

    class T(ast.NodeTransformer):
        def visit_Name(self, n):
            if isinstance(n.ctx, ast.Load) and n.id in consts:
                used.add(n.id)
                return ast.copy_location(copy.deepcopy(consts[n.id]), n)
            return n
    T().visit(tree)
    ast.fix_missing_locations(tree)
    return sorted(used)


def load_reference():
    if not os.path.exists(REFERENCE):
        return None
    with open(REFERENCE) as f:
        return json.load(f)


# ------------------------------------------------------------------------------------------------ renaming
class _Rename(ast.NodeTransformer):
    """rename local names inside one function (not descending into nested scopes that rebind the name)"""
    def __init__(self, mapping):
        self.m = mapping

    def visit_Name(self, n):
        if n.id in self.m:
            n.id = self.m[n.id]
        return n

    def visit_ExceptHandler(self, n):
        self.generic_visit(n)
        if n.name in self.m:
            n.name = self.m[n.name]
        return n

    def visit_arg(self, n):
        return n

    def visit_FunctionDef(self, n):
        # a nested function: rename free uses of the outer locals, and its own def name when it is one of the renamed locals
        shadow = {a.arg for a in n.args.posonlyargs + n.args.args + n.args.kwonlyargs}
        inner = _Rename({k: v for k, v in self.m.items() if k not in shadow})
        n.body = [inner.visit(s) for s in n.body]
        if n.name in self.m:
            n.name = self.m[n.name]
        return n

    def visit_Lambda(self, n):
        shadow = {a.arg for a in n.args.posonlyargs + n.args.args + n.args.kwonlyargs}
        n.body = _Rename({k: v for k, v in self.m.items() if k not in shadow}).visit(n.body)
        return n

    def visit_keyword(self, n):
        n.value = self.visit(n.value)
        return n


def rename_locals(fnode, mapping):
    if not mapping:
        return
    r = _Rename(mapping)
    fnode.body = [r.visit(s) for s in fnode.body]
    for d in fnode.args.defaults + [x for x in fnode.args.kw_defaults if x is not None]:
        pass


# ------------------------------------------------------------------------------------------------ inlining
class NotInlineable(Exception):
    pass


def _contains(node, kinds):
    for n in _walk_scope_stmt(node):
        if isinstance(n, kinds):
            return True
    return False


def _walk_scope_stmt(node):
    yield node
    for c in ast.iter_child_nodes(node):
        if isinstance(c, (ast.FunctionDef, ast.AsyncFunctionDef, ast.ClassDef, ast.Lambda)):
            continue
        yield from _walk_scope_stmt(c)


def _tail_convert(stmts, make_result):
    """replace tail-position returns by `make_result(value)` statements; (new statements, terminated?)"""
    out = []
    for i, s in enumerate(stmts):
        if isinstance(s, ast.Return):
            out.extend(make_result(s.value))
            return out, True
        if isinstance(s, ast.If) and _contains(s, ast.Return):
            b, bt = _tail_convert(s.body, make_result)
            o, ot = _tail_convert(s.orelse, make_result)
            rest = stmts[i + 1:]
            if bt and ot:
                out.append(ast.copy_location(ast.If(test=s.test, body=b or [ast.Pass()], orelse=o), s))
                return out, True
            r, rt = _tail_convert(copy.deepcopy(rest) if (bt or ot) else rest, make_result)
            if bt:
                out.append(ast.copy_location(ast.If(test=s.test, body=b or [ast.Pass()], orelse=(o + r)), s))
                return out, rt
            if ot:
                out.append(ast.copy_location(ast.If(test=s.test, body=(b + r) or [ast.Pass()], orelse=o), s))
                return out, rt
            raise NotInlineable('return in a non-tail position')
        if isinstance(s, ast.Raise):
            out.append(s)
            return out, True
        if isinstance(s, ast.Try) and _contains(s, ast.Return) and i == len(stmts) - 1 and not s.finalbody:
            # a try statement in tail position: its returns become results, control continues after the call site
            b, bt = _tail_convert(s.body, make_result)
            oe, ot = _tail_convert(s.orelse, make_result) if s.orelse else ([], bt)
            hs, all_t = [], True
            for h in s.handlers:
                hb, ht = _tail_convert(h.body, make_result)
                all_t = all_t and ht
                hs.append(ast.copy_location(ast.ExceptHandler(type=h.type, name=h.name, body=hb or [ast.Pass()]), h))
            out.append(ast.copy_location(ast.Try(body=b or [ast.Pass()], handlers=hs, orelse=oe, finalbody=[]), s))
            return out, (bt if not s.orelse else ot) and all_t
        if _contains(s, ast.Return):
            raise NotInlineable('return inside a loop / try / with')
        out.append(s)
    return out, False


def _stored_names(stmts):
    out = set()
    for s in stmts:
        for n in _walk_scope_stmt(s):
            if isinstance(n, ast.Name) and isinstance(n.ctx, (ast.Store, ast.Del)):
                out.add(n.id)
            elif isinstance(n, (ast.FunctionDef, ast.AsyncFunctionDef, ast.ClassDef)) and n is not s:
                out.add(n.name)
            elif isinstance(n, ast.ExceptHandler) and n.name:
                out.add(n.name)
    return out


def _bind(gnode, call, is_method):
    a = gnode.args
    if a.vararg:
        raise NotInlineable('varargs')
    pos = [x.arg for x in a.posonlyargs + a.args]
    if is_method:
        pos = pos[1:]
    if any(isinstance(x, ast.Starred) for x in call.args):
        raise NotInlineable('star arguments')
    stars = [k for k in call.keywords if k.arg is None]
    if stars and not (a.kwarg and len(stars) == 1 and isinstance(stars[0].value, ast.Name)):
        raise NotInlineable('star arguments')
    if len(call.args) > len(pos):
        raise NotInlineable('too many arguments')
    m = dict(zip(pos, call.args))
    kwonly = [x.arg for x in a.kwonlyargs]
    extra = []
    for k in call.keywords:
        if k.arg is None:
            continue
        if k.arg not in m and k.arg not in pos + kwonly and a.kwarg and not stars:
            extra.append(k)          # collected by the helper's **kwargs
            continue
        if k.arg in m or k.arg not in pos + kwonly:
            raise NotInlineable('keyword mismatch')
        m[k.arg] = k.value
    allpos = a.posonlyargs + a.args

    def shared_default(d):
        # a mutable default is ONE object for all calls: writing `p = []` at the call site would make it fresh per call
        return isinstance(d, (ast.List, ast.Dict, ast.Set, ast.ListComp, ast.DictComp, ast.SetComp)) or \
            (isinstance(d, ast.Call) and isinstance(d.func, ast.Name) and d.func.id in ('list', 'dict', 'set', 'bytearray'))
    for p, d in zip(allpos[len(allpos) - len(a.defaults):], a.defaults):
        if p.arg not in m and shared_default(d):
            raise NotInlineable('mutable default argument')
        m.setdefault(p.arg, d)
    for p, d in zip(a.kwonlyargs, a.kw_defaults):
        if d is not None:
            if p.arg not in m and shared_default(d):
                raise NotInlineable('mutable default argument')
            m.setdefault(p.arg, d)
    need = set(pos + kwonly)
    if set(m) != need:
        raise NotInlineable('unbound parameter')
    if is_method and (a.posonlyargs + a.args):
        # self._helper(...) where the helper is a classmethod: its `cls` is reached through the caller's receiver (class attributes and
        # static / class methods resolve through the instance as well)
        first = (a.posonlyargs + a.args)[0].arg
        recv = call.func.value if isinstance(call.func, ast.Attribute) else None
        if isinstance(recv, ast.Name) and recv.id != first and first not in m:
            m[first] = recv
    if a.kwarg:
        # f(**kwargs) handed on as helper(**kwargs): the helper's dictionary is the caller's; without one it is empty
        m[a.kwarg.arg] = stars[0].value if stars else ast.Dict(keys=[ast.Constant(value=k.arg) for k in extra], values=[k.value for k in extra])
    return m


def _fold_flags(body, consts):
    """write literal flag arguments (True / False / None) into a helper body and fold the tests they decide"""
    class Sub(ast.NodeTransformer):
        def visit_Name(self, n):
            if isinstance(n.ctx, ast.Load) and n.id in consts:
                return ast.copy_location(ast.Constant(value=consts[n.id].value), n)
            return n

        def visit_FunctionDef(self, n):
            return n

        def visit_Lambda(self, n):
            return n

    def truth(t):
        if isinstance(t, ast.Constant):
            return bool(t.value)
        if isinstance(t, ast.UnaryOp) and isinstance(t.op, ast.Not):
            r = truth(t.operand)
            return None if r is None else (not r)
        if isinstance(t, ast.Compare) and len(t.ops) == 1 and isinstance(t.left, ast.Constant) and isinstance(t.comparators[0], ast.Constant) \
                and isinstance(t.ops[0], (ast.Is, ast.IsNot)) and (t.left.value is None or t.comparators[0].value is None):
            same = t.left.value is t.comparators[0].value
            return same if isinstance(t.ops[0], ast.Is) else not same
        if isinstance(t, ast.BoolOp):
            vals = [truth(v) for v in t.values]
            if isinstance(t.op, ast.And):
                if any(v is False for v in vals):
                    return False
                return True if all(v is True for v in vals) else None
            if any(v is True for v in vals):
                return True
            return False if all(v is False for v in vals) else None
        return None

    class Fold(ast.NodeTransformer):
        def visit_If(self, n):
            self.generic_visit(n)
            r = truth(n.test)
            if r is None:
                if isinstance(n.test, ast.BoolOp):      # drop the decided operands of a mixed test
                    keep = [v for v in n.test.values if truth(v) is None]
                    if len(keep) == 1:
                        n.test = keep[0]
                    elif keep:
                        n.test.values = keep
                return n
            return (n.body if r else n.orelse) or [ast.copy_location(ast.Pass(), n)]

        def visit_IfExp(self, n):
            self.generic_visit(n)
            r = truth(n.test)
            return n if r is None else (n.body if r else n.orelse)

        def visit_FunctionDef(self, n):
            return n

    out = []
    for st in body:
        st = Sub().visit(st)
        r = Fold().visit(st)
        out.extend(r if isinstance(r, list) else [r])
    out = [st for i, st in enumerate(out) if not (isinstance(st, ast.Pass) and len(out) > 1)]
    return out


def splice(gnode, call, target_kind, target, caller_locals, is_method=False, allow_nonlocal=False):
    """statements equivalent to the call of `gnode` in the given statement context, or raise NotInlineable"""
    if _contains(gnode, (ast.Yield, ast.YieldFrom, ast.Global)) or isinstance(gnode, ast.AsyncFunctionDef):
        raise NotInlineable('generator / global')
    if _contains(gnode, (ast.Nonlocal,)) and not allow_nonlocal:
        raise NotInlineable('generator / global')
    binding = _bind(gnode, call, is_method)
    body = copy.deepcopy(_strip_docstring(gnode.body))
    # a helper nested directly in its caller: the names it declares nonlocal ARE the caller's locals - spliced in, the declaration
    # goes away and the names keep their spelling
    nonlocals = set()
    for st in list(body):
        if isinstance(st, ast.Nonlocal):
            nonlocals.update(st.names)
            body.remove(st)
    if any(isinstance(n, ast.Nonlocal) for st in body for n in ast.walk(st)):
        raise NotInlineable('generator / global')
    stored = _stored_names(body) - nonlocals
    gparams, glocals = local_names(gnode)
    glocals = [x for x in glocals if x not in nonlocals]
    rename = {}
    pre = []
    consts = {}
    for p, arg in binding.items():
        if isinstance(arg, ast.Name) and p not in stored:
            if arg.id != p:
                rename[p] = arg.id
        elif isinstance(arg, ast.Constant) and p not in stored and isinstance(arg.value, (bool, type(None), int, str)):
            consts[p] = arg          # a flag: written into the body, and the branches it decides are folded
        else:
            pre.append(ast.Assign(targets=[ast.Name(id=p, ctx=ast.Store())], value=copy.deepcopy(arg), lineno=call.lineno, col_offset=0))
    # helper locals (and parameters bound by assignment) must not collide with other names of the caller
    taken = set(caller_locals) | set(rename.values())
    target_names = {n.id for n in ast.walk(target) if isinstance(n, ast.Name)} if target is not None else set()
    for nm in list(glocals) + [p for p in binding if p not in rename]:
        if nm in taken and nm not in target_names and not (nm in binding and isinstance(binding[nm], ast.Name) and binding[nm].id == nm):
            k = 1
            new = '%s_%s' % (nm, gnode.name.strip('_'))
            while new in taken:
                k += 1
                new = '%s_%s%d' % (nm, gnode.name.strip('_'), k)
            rename[nm] = new
            taken.add(new)
    if rename:
        r = _Rename(rename)
        body = [r.visit(s) for s in body]
        for st in pre:
            if st.targets[0].id in rename:
                st.targets[0].id = rename[st.targets[0].id]
    if consts:
        body = _fold_flags(body, consts)

    def make_result(value):
        v = value if value is not None else ast.Constant(value=None)
        if target_kind == 'assign':
            # `a, b = helper()` returning the display `(x, y)`: bind component-wise when no target is read by another component
            if isinstance(target, ast.Tuple) and isinstance(v, ast.Tuple) and len(target.elts) == len(v.elts) \
                    and all(isinstance(t_, ast.Name) for t_ in target.elts):
                tnames = [t_.id for t_ in target.elts]
                safe = all(not any(isinstance(n_, ast.Name) and n_.id in tnames and n_.id != tnames[k_] for n_ in ast.walk(e_))
                           for k_, e_ in enumerate(v.elts))
                if safe:
                    outs = []
                    for t_, e_ in zip(target.elts, v.elts):
                        if isinstance(e_, ast.Name) and e_.id == t_.id:
                            continue
                        outs.append(ast.Assign(targets=[ast.Name(id=t_.id, ctx=ast.Store())], value=e_, lineno=getattr(v, 'lineno', call.lineno), col_offset=0))
                    if outs:
                        outs[-1]._result = True
                        return outs
                    return []          # every component already carries the target's name: nothing to bind
            st = ast.Assign(targets=[copy.deepcopy(target)], value=v, lineno=getattr(v, 'lineno', call.lineno), col_offset=0)
            st._result = True
            return [st]
        if target_kind == 'return':
            return [ast.Return(value=v, lineno=getattr(v, 'lineno', call.lineno), col_offset=0)]
        return [ast.Expr(value=v, lineno=getattr(v, 'lineno', call.lineno), col_offset=0)] if not isinstance(v, (ast.Constant, ast.Name)) else []
    new, terminated = _tail_convert(body, make_result)
    if not terminated and target_kind in ('assign', 'return'):
        new.extend(make_result(None))
    out = pre + new
    out = [st for st in out if not (isinstance(st, ast.Assign) and len(st.targets) == 1 and isinstance(st.targets[0], ast.Name)
                                    and isinstance(st.value, ast.Name) and st.value.id == st.targets[0].id)]
    for st in out:
        ast.fix_missing_locations(st)
    return out or [ast.Pass()]


class _Inliner:
    BUDGET = 120          # spliced call sites per module: a clean-up extracts a handful of helpers, not hundreds

    def __init__(self, tree, new_funcs):
        """new_funcs: {qualname in module: (node, class node, parent function node)}"""
        self.tree = tree
        self.count = 0
        self.failed = {}
        # helpers that (transitively) call themselves are never spliced
        names = {q: v[0].name for q, v in new_funcs.items()}
        calls = {}
        for q, (g, gcls, gparent) in new_funcs.items():
            used = set()
            for n in ast.walk(g):
                if isinstance(n, ast.Call):
                    f = n.func
                    nm = f.id if isinstance(f, ast.Name) else (f.attr if isinstance(f, ast.Attribute) else None)
                    if nm in names.values():
                        used.add(nm)
            calls[g.name] = used
        recursive = set()
        for nm in calls:
            seen, todo = set(), list(calls[nm])
            while todo:
                c = todo.pop()
                if c == nm:
                    recursive.add(nm)
                    break
                if c not in seen:
                    seen.add(c)
                    todo.extend(calls.get(c, ()))
        self.new = {q: v for q, v in new_funcs.items() if v[0].name not in recursive}
        for nm in recursive:
            self.failed[nm] = 'recursive helper' 

    def resolve(self, call, fnode, cls, chain):
        f = call.func
        if isinstance(f, ast.Name):
            # nested helper of the caller (or of an enclosing function), else module level
            for q, (g, gcls, gparent) in self.new.items():
                if g.name == f.id and gparent is not None and gparent in chain:
                    return g, False
            for q, (g, gcls, gparent) in self.new.items():
                if g.name == f.id and gparent is None and gcls is None:
                    return g, False
        if isinstance(f, ast.Attribute) and isinstance(f.value, ast.Name) and f.value.id in ('self', 'cls') and cls is not None:
            for q, (g, gcls, gparent) in self.new.items():
                if g.name == f.attr and gcls is cls and gparent is None:
                    static = any(isinstance(d, ast.Name) and d.id == 'staticmethod' for d in g.decorator_list)
                    return g, not static
        return None, False

    def run_function(self, fnode, cls, chain):
        params, order = local_names(fnode)
        self._orig_locals = getattr(fnode, '_orig_locals', None) or (set(params) | set(order))
        fnode._orig_locals = self._orig_locals
        changed = True
        rounds = 0
        while changed and rounds < 8:
            rounds += 1
            changed = self._pass(fnode, fnode, cls, chain + [fnode])

    def _pass(self, node, fnode, cls, chain):
        changed = False
        for field in ('body', 'orelse', 'finalbody'):
            blk = getattr(node, field, None)
            if not isinstance(blk, list) or not blk or not isinstance(blk[0], ast.stmt):
                continue
            i = 0
            while i < len(blk):
                s = blk[i]
                rep = self._try_stmt(s, fnode, cls, chain)
                if rep is not None:
                    dist = _distribute_continuation(rep, blk[i + 1:], s)
                    if dist is not None:
                        blk[i:] = dist
                        changed = True
                        self.count += 1
                        continue
                    blk[i:i + 1] = rep
                    changed = True
                    self.count += 1
                    i += len(rep)
                    continue
                if not isinstance(s, (ast.FunctionDef, ast.AsyncFunctionDef, ast.ClassDef)):
                    if self._pass(s, fnode, cls, chain):
                        changed = True
                i += 1
        for h in getattr(node, 'handlers', []) or []:
            if self._pass(h, fnode, cls, chain):
                changed = True
        return changed

    def _try_stmt(self, s, fnode, cls, chain):
        call, kind, target = None, None, None
        if isinstance(s, ast.Assign) and len(s.targets) == 1 and isinstance(s.value, ast.Call):
            call, kind, target = s.value, 'assign', s.targets[0]
        elif isinstance(s, ast.Return) and isinstance(s.value, ast.Call):
            call, kind = s.value, 'return'
        elif isinstance(s, ast.Expr) and isinstance(s.value, ast.Call):
            call, kind = s.value, 'expr'
        if call is None:
            return None
        g, is_method = self.resolve(call, fnode, cls, chain)
        if g is None or g is fnode or g in chain:
            return None
        if self.count >= self.BUDGET:
            self.failed[g.name] = 'inlining budget exhausted'
            return None
        try:
            nested_here = any(gg is g and gp is fnode for (gg, gc_, gp) in self.new.values())
            return splice(g, call, kind, target, set(self._orig_locals), is_method, allow_nonlocal=nested_here)
        except NotInlineable as e:
            self.failed[g.name] = str(e)
            return None


def _static_truth(test, name, value):
    """truth of `test` when `name` was just bound to the literal `value` (None / constant / tuple / list display), else None"""
    def val_truth():
        if isinstance(value, ast.Constant):
            return bool(value.value)
        if isinstance(value, (ast.Tuple, ast.List, ast.Dict, ast.Set)):
            return bool(getattr(value, 'elts', None) or getattr(value, 'keys', None))
        return None
    is_none = isinstance(value, ast.Constant) and value.value is None
    known_not_none = isinstance(value, (ast.Tuple, ast.List, ast.Dict, ast.Set, ast.ListComp)) or (isinstance(value, ast.Constant) and value.value is not None)
    if isinstance(test, ast.UnaryOp) and isinstance(test.op, ast.Not):
        r = _static_truth(test.operand, name, value)
        return None if r is None else (not r)
    if isinstance(test, ast.Name) and test.id == name:
        return val_truth()
    if isinstance(test, ast.Compare) and len(test.ops) == 1 and isinstance(test.left, ast.Name) and test.left.id == name \
            and isinstance(test.comparators[0], ast.Constant) and test.comparators[0].value is None:
        if isinstance(test.ops[0], ast.Is):
            return True if is_none else (False if known_not_none else None)
        if isinstance(test.ops[0], ast.IsNot):
            return False if is_none else (True if known_not_none else None)
    return None


def _distribute_continuation(rep, rest, stmt):
    """`T = helper(..)` spliced into several branches, directly followed by `if <test on T>`: move the rest of the block
    into every branch end and decide the test where the branch binds T to a literal.  None if the shape does not apply."""
    if not (isinstance(stmt, ast.Assign) and isinstance(stmt.targets[0], ast.Name)) or not rest or len(rest) > 40:
        return None
    name = stmt.targets[0].id
    nxt = rest[0]
    if not isinstance(nxt, ast.If) or not any(isinstance(n, ast.Name) and n.id == name for n in ast.walk(nxt.test)):
        return None
    results = []

    def find(blk):
        for st in blk:
            if getattr(st, '_result', False):
                results.append((blk, st))
            for field in ('body', 'orelse'):
                sub = getattr(st, field, None)
                if isinstance(sub, list) and isinstance(st, ast.If):
                    find(sub)
    find(rep)
    if len(results) < 2 or len(results) > 4:
        return None
    if not any(_static_truth(nxt.test, name, st.value) is not None for blk, st in results):
        return None
    for blk, st in results:
        if blk[-1] is not st:
            return None          # a result that is not at the end of its branch: not a tail shape
    for blk, st in results:
        cont = copy.deepcopy(rest)
        t = _static_truth(cont[0].test, name, st.value)
        if t is True:
            cont[0:1] = cont[0].body
        elif t is False:
            cont[0:1] = cont[0].orelse
        blk.extend(cont)
        st._result = False
    _trim_dead(rep)
    return rep


def _trim_dead(blk):
    """drop the statements that follow a return / raise / continue / break in the same block"""
    for i, st in enumerate(blk):
        for field in ('body', 'orelse', 'finalbody'):
            sub = getattr(st, field, None)
            if isinstance(sub, list) and sub and isinstance(sub[0], ast.stmt) and not isinstance(st, (ast.FunctionDef, ast.AsyncFunctionDef, ast.ClassDef)):
                _trim_dead(sub)
        if isinstance(st, (ast.Return, ast.Raise, ast.Continue, ast.Break)):
            del blk[i + 1:]
            return


def hoist_nested_calls(fnode, is_new_callee):
    """`x = f(helper(a))` -> `_h1 = helper(a); x = f(_h1)` for calls of new helpers nested in simple statements"""
    counter = [0]

    def comp_to_loop(s):
        """`T = [h(a) for a in IT]` / `return [...]` with a new multi-statement helper in the element -> accumulator loop"""
        v = getattr(s, 'value', None)
        if not isinstance(s, (ast.Assign, ast.Return)) or not isinstance(v, ast.ListComp) or len(v.generators) != 1 or v.generators[0].ifs:
            return None
        if not any(isinstance(n, ast.Call) and is_new_callee(n) for n in ast.walk(v.elt)):
            return None
        counter[0] += 1
        acc = '_acc%d' % counter[0]
        g = v.generators[0]
        init = ast.Assign(targets=[ast.Name(id=acc, ctx=ast.Store())], value=ast.List(elts=[], ctx=ast.Load()))
        app = ast.Expr(value=ast.Call(func=ast.Attribute(value=ast.Name(id=acc, ctx=ast.Load()), attr='append', ctx=ast.Load()), args=[v.elt], keywords=[]))
        loop = ast.For(target=g.target, iter=g.iter, body=[app], orelse=[])
        if isinstance(s, ast.Return):
            last = ast.Return(value=ast.Name(id=acc, ctx=ast.Load()))
        else:
            last = ast.Assign(targets=s.targets, value=ast.Name(id=acc, ctx=ast.Load()))
        out = [init, loop, last]
        for st in out:
            ast.copy_location(st, s)
            ast.fix_missing_locations(st)
        return out

    def do_block(blk):
        i = 0
        while i < len(blk):
            s = blk[i]
            rep = comp_to_loop(s)
            if rep is not None:
                blk[i:i + 1] = rep
                continue
            # the expressions evaluated once when the statement is reached: (holder, field or index)
            slots = []
            if isinstance(s, (ast.Assign, ast.AugAssign, ast.Return, ast.Expr, ast.AnnAssign)) and getattr(s, 'value', None) is not None:
                slots.append((s, 'value', True))
            if isinstance(s, ast.Assign):
                for t_ in s.targets:
                    for sub_ in ast.walk(t_):
                        if isinstance(sub_, ast.Subscript):
                            slots.append((sub_, 'slice', False))
            elif isinstance(s, ast.AugAssign):
                for sub_ in ast.walk(s.target):
                    if isinstance(sub_, ast.Subscript):
                        slots.append((sub_, 'slice', False))
            elif isinstance(s, ast.For):
                slots.append((s, 'iter', False))
            elif isinstance(s, ast.If):
                slots.append((s, 'test', False))
            for holder, slot, is_value in slots:
                top = getattr(holder, slot)
                if not is_value and isinstance(top, ast.Call) and is_new_callee(top) and not _conditional_in(top, top):
                    counter[0] += 1
                    nm0 = '_h%d_%s' % (counter[0], (top.func.id if isinstance(top.func, ast.Name) else top.func.attr).strip('_'))
                    st0 = ast.copy_location(ast.Assign(targets=[ast.Name(id=nm0, ctx=ast.Store())], value=top), s)
                    ast.fix_missing_locations(st0)
                    setattr(holder, slot, ast.copy_location(ast.Name(id=nm0, ctx=ast.Load()), top))
                    blk[i:i] = [st0]
                    i += 1
                    top = getattr(holder, slot)
                pre = []
                for n in list(ast.walk(top)):
                    if n is top or not isinstance(n, ast.Call) or not is_new_callee(n):
                        continue
                    # only hoist calls evaluated unconditionally (not inside lambda / comprehension / boolean short-circuit / ifexp)
                    if _conditional_in(top, n):
                        continue
                    counter[0] += 1
                    nm = '_h%d_%s' % (counter[0], (n.func.id if isinstance(n.func, ast.Name) else n.func.attr).strip('_'))
                    pre.append((n, nm))
                if pre:
                    new_stmts = []
                    for n, nm in pre:
                        new_stmts.append(ast.copy_location(ast.Assign(targets=[ast.Name(id=nm, ctx=ast.Store())], value=copy.deepcopy(n)), s))
                    repl = {id(n): nm for n, nm in pre}

                    class R(ast.NodeTransformer):
                        def visit_Call(self, c):
                            if id(c) in repl:
                                return ast.copy_location(ast.Name(id=repl[id(c)], ctx=ast.Load()), c)
                            self.generic_visit(c)
                            return c
                    setattr(holder, slot, R().visit(getattr(holder, slot)))
                    for st in new_stmts:
                        ast.fix_missing_locations(st)
                    blk[i:i] = new_stmts
                    i += len(new_stmts)
            for field in ('body', 'orelse', 'finalbody'):
                sub = getattr(s, field, None)
                if isinstance(sub, list) and sub and isinstance(sub[0], ast.stmt) and not isinstance(s, (ast.FunctionDef, ast.AsyncFunctionDef, ast.ClassDef)):
                    do_block(sub)
            for h in getattr(s, 'handlers', []) or []:
                do_block(h.body)
            i += 1
    do_block(fnode.body)


def _conditional_in(top, node):
    """is `node` inside a lambda / comprehension / short-circuit / conditional part of expression `top`?"""
    def rec(n, cond):
        if n is node:
            return cond
        if isinstance(n, (ast.Lambda, ast.ListComp, ast.SetComp, ast.DictComp, ast.GeneratorExp)):
            cond = True
        if isinstance(n, ast.BoolOp):
            for k, v in enumerate(n.values):
                r = rec(v, cond or k > 0)
                if r is not None:
                    return r
            return None
        if isinstance(n, ast.IfExp):
            for v, c2 in ((n.test, cond), (n.body, True), (n.orelse, True)):
                r = rec(v, c2)
                if r is not None:
                    return r
            return None
        for c in ast.iter_child_nodes(n):
            r = rec(c, cond)
            if r is not None:
                return r
        return None
    r = rec(top, False)
    return bool(r)


def _remove_dead_helpers(tree, new):
    """a new helper all of whose call sites were spliced (no reference to its name is left in the module) is dropped, so that
    no rule looks at its body out of context"""
    removed = []
    for q, (g, gcls, gparent) in list(new.items()):
        refs = 0
        for n in ast.walk(tree):
            if n is g:
                continue
            if isinstance(n, ast.Name) and n.id == g.name and isinstance(n.ctx, ast.Load):
                refs += 1
            elif isinstance(n, ast.Attribute) and n.attr == g.name and isinstance(n.ctx, ast.Load):
                refs += 1
            elif isinstance(n, ast.Constant) and isinstance(n.value, str) and n.value == g.name:
                refs += 1
        # references from inside the helper itself do not count
        inner = sum(1 for n in ast.walk(g) if (isinstance(n, ast.Name) and n.id == g.name) or (isinstance(n, ast.Attribute) and n.attr == g.name))
        if refs - inner > 0:
            continue
        holder = gparent if gparent is not None else (gcls if gcls is not None else tree)

        def drop(blk):
            for i, st in enumerate(blk):
                if st is g:
                    del blk[i]
                    if not blk:
                        blk.append(ast.Pass())
                    return True
                for field in ('body', 'orelse', 'finalbody'):
                    sub = getattr(st, field, None)
                    if isinstance(sub, list) and sub and isinstance(sub[0], ast.stmt) and not isinstance(st, (ast.FunctionDef, ast.AsyncFunctionDef, ast.ClassDef)):
                        if drop(sub):
                            return True
            return False
        if drop(holder.body):
            removed.append(q)
            del new[q]
    return removed


def _defs_to_lambdas(tree, new):
    """a new nested helper whose body is a single `return E` is put back as `name = lambda ...: E` (the form a def
    replaces); calls through the name are then beta-reduced by the expander like any other lambda value"""
    n_done = 0
    for q, (g, gcls, gparent) in list(new.items()):
        if gparent is None:
            continue
        body = _strip_docstring(g.body)
        if len(body) != 1 or not isinstance(body[0], ast.Return) or body[0].value is None or g.decorator_list:
            continue
        if g.args.vararg or g.args.kwarg:
            continue
        lam_args = copy.deepcopy(g.args)
        for a in lam_args.posonlyargs + lam_args.args + lam_args.kwonlyargs:
            a.annotation = None
        assign = ast.copy_location(ast.Assign(targets=[ast.Name(id=g.name, ctx=ast.Store())],
                                              value=ast.Lambda(args=lam_args, body=copy.deepcopy(body[0].value))), g)

        def replace_in(blk):
            for i, st in enumerate(blk):
                if st is g:
                    blk[i] = assign
                    return True
                for field in ('body', 'orelse', 'finalbody'):
                    sub = getattr(st, field, None)
                    if isinstance(sub, list) and sub and isinstance(sub[0], ast.stmt) and not isinstance(st, (ast.FunctionDef, ast.AsyncFunctionDef, ast.ClassDef)):
                        if replace_in(sub):
                            return True
                for h in getattr(st, 'handlers', []) or []:
                    if replace_in(h.body):
                        return True
            return False
        if not replace_in(gparent.body):
            continue
        ast.fix_missing_locations(assign)
        n_done += 1
    return n_done


def _const_sequence(node, module_consts):
    """the literal elements of a small constant sequence expression (tuple/list/str literal or a module constant bound to one)"""
    if isinstance(node, ast.Name) and node.id in module_consts:
        node = module_consts[node.id]
    if isinstance(node, (ast.Tuple, ast.List)) and 1 <= len(node.elts) <= 8 and all(isinstance(e, ast.Constant) for e in node.elts):
        return [ast.Constant(value=e.value) for e in node.elts]
    if isinstance(node, (ast.Tuple, ast.List)) and 1 <= len(node.elts) <= 12 and all(_is_global_ref(e) for e in node.elts):
        return [copy.deepcopy(e) for e in node.elts]          # a tuple of classes / functions
    if isinstance(node, ast.Constant) and isinstance(node.value, str) and 1 <= len(node.value) <= 8:
        return [ast.Constant(value=c) for c in node.value]
    return None


def _is_global_ref(e):
    while isinstance(e, ast.Attribute):
        e = e.value
    return isinstance(e, ast.Name)


def unroll_constant_loops(tree):
    """`for d in ('0', '1', '2', '3'): body` (or over a module constant bound once to such a literal) -> the body repeated with
    the element substituted; only loops without break / continue / else whose variable is not rebound in the body"""
    consts = {}
    counts = {}
    for st in tree.body:
        if isinstance(st, ast.Assign) and len(st.targets) == 1 and isinstance(st.targets[0], ast.Name):
            counts[st.targets[0].id] = counts.get(st.targets[0].id, 0) + 1
            consts[st.targets[0].id] = st.value
    consts = {k: v for k, v in consts.items() if counts[k] == 1}
    n_done = [0]

    def local_consts(fnode):
        cnt, val = {}, {}
        for n in _walk_scope_stmt(fnode):
            if isinstance(n, ast.Name) and isinstance(n.ctx, ast.Store):
                cnt[n.id] = cnt.get(n.id, 0) + 1
            if isinstance(n, ast.Assign) and len(n.targets) == 1 and isinstance(n.targets[0], ast.Name) and isinstance(n.value, (ast.Tuple, ast.List)):
                val[n.targets[0].id] = n.value
        return {k: v for k, v in val.items() if cnt.get(k) == 1}

    def do_block(blk, consts=consts):
        i = 0
        while i < len(blk):
            st = blk[i]
            if isinstance(st, (ast.FunctionDef, ast.AsyncFunctionDef)):
                do_block(st.body, dict(consts, **local_consts(st)))
                i += 1
                continue
            if isinstance(st, ast.For) and isinstance(st.target, (ast.Tuple, ast.List)) and not st.orelse \
                    and all(isinstance(t_, ast.Name) for t_ in st.target.elts):
                # `for field, period, carry in TABLE:` over a small table of rows of literals: the body once per row
                it = st.iter
                if isinstance(it, ast.Name) and it.id in consts:
                    it = consts[it.id]

                def simple_(e):
                    if _is_literal(e) or (isinstance(e, (ast.Name, ast.Attribute)) and _is_global_ref(e)):
                        return True
                    if isinstance(e, (ast.Tuple, ast.List, ast.Set)):
                        return all(simple_(x) for x in e.elts)
                    if isinstance(e, ast.Dict):
                        return all(k is not None and simple_(k) for k in e.keys) and all(simple_(v) for v in e.values)
                    return False
                names = [t_.id for t_ in st.target.elts]
                if isinstance(it, (ast.Tuple, ast.List)) and 1 <= len(it.elts) <= 8 and all(
                        isinstance(r, (ast.Tuple, ast.List)) and len(r.elts) == len(names) and all(simple_(x) for x in r.elts) for r in it.elts) \
                        and not any(isinstance(x, (ast.Break, ast.Continue)) for b in st.body for x in _walk_scope_stmt(b)) \
                        and not (set(names) & _stored_names(st.body)):
                    rep = []
                    for r in it.elts:
                        m_ = dict(zip(names, r.elts))

                        class R2(ast.NodeTransformer):
                            def visit_Name(self, n):
                                if n.id in m_ and isinstance(n.ctx, ast.Load):
                                    return ast.copy_location(copy.deepcopy(m_[n.id]), n)
                                return n
                        for b in st.body:
                            rep.append(R2().visit(copy.deepcopy(b)))
                    blk[i:i + 1] = rep
                    n_done[0] += 1
                    continue
            if isinstance(st, ast.For) and isinstance(st.target, ast.Name) and not st.orelse:
                seq = _const_sequence(st.iter, consts)
                v = st.target.id
                if seq is not None and not any(isinstance(x, (ast.Break, ast.Continue)) for b in st.body for x in _walk_scope_stmt(b)) \
                        and v not in _stored_names(st.body):
                    rep = []
                    for val in seq:
                        class R(ast.NodeTransformer):
                            def visit_Name(self, n):
                                if n.id == v and isinstance(n.ctx, ast.Load):
                                    return ast.copy_location(copy.deepcopy(val), n)
                                return n
                        for b in st.body:
                            rep.append(R().visit(copy.deepcopy(b)))
                    blk[i:i + 1] = rep
                    n_done[0] += 1
                    continue
            for field in ('body', 'orelse', 'finalbody'):
                sub = getattr(st, field, None)
                if isinstance(sub, list) and sub and isinstance(sub[0], ast.stmt):
                    do_block(sub, consts)
            for h in getattr(st, 'handlers', []) or []:
                do_block(h.body, consts)
            i += 1
    do_block(tree.body)
    return n_done[0]


class _SimplifySubstituted(ast.NodeTransformer):
    """after a constant was written into an expression: `'a' == 'b'` is decided, the conditional expression it selects is
    taken, and `getattr(x, 'name')` is the attribute `x.name`"""
    def visit_Compare(self, n):
        self.generic_visit(n)
        if len(n.ops) == 1 and isinstance(n.left, ast.Constant) and isinstance(n.comparators[0], ast.Constant) \
                and isinstance(n.ops[0], (ast.Eq, ast.NotEq)) and type(n.left.value) is type(n.comparators[0].value):
            r = n.left.value == n.comparators[0].value
            return ast.copy_location(ast.Constant(value=r if isinstance(n.ops[0], ast.Eq) else not r), n)
        if len(n.ops) == 1 and isinstance(n.left, ast.Constant) and isinstance(n.ops[0], (ast.In, ast.NotIn)) \
                and isinstance(n.comparators[0], (ast.Tuple, ast.List, ast.Set)) and all(isinstance(e, ast.Constant) for e in n.comparators[0].elts):
            r = n.left.value in [e.value for e in n.comparators[0].elts]
            return ast.copy_location(ast.Constant(value=r if isinstance(n.ops[0], ast.In) else not r), n)
        return n

    def visit_IfExp(self, n):
        self.generic_visit(n)
        if isinstance(n.test, ast.Constant) and isinstance(n.test.value, bool):
            return n.body if n.test.value else n.orelse
        return n

    def visit_Call(self, n):
        self.generic_visit(n)
        if isinstance(n.func, ast.Name) and n.func.id == 'getattr' and len(n.args) == 2 and not n.keywords \
                and isinstance(n.args[1], ast.Constant) and isinstance(n.args[1].value, str) and n.args[1].value.isidentifier():
            return ast.copy_location(ast.Attribute(value=n.args[0], attr=n.args[1].value, ctx=ast.Load()), n)
        return n


def unroll_constant_comprehensions(tree):
    """`[f(c) for c in (a, b, c)]` (the sequence a display of at most 8 elements, directly or through a local bound once to one;
    also `zip` of such displays) -> the display `[f(a), f(b), f(c)]`"""
    n_done = [0]
    mcount, mconst = {}, {}
    for st in tree.body:
        for n in ast.walk(st) if not isinstance(st, (ast.FunctionDef, ast.AsyncFunctionDef, ast.ClassDef)) else []:
            if isinstance(n, ast.Name) and isinstance(n.ctx, ast.Store):
                mcount[n.id] = mcount.get(n.id, 0) + 1
        if isinstance(st, ast.Assign) and len(st.targets) == 1 and isinstance(st.targets[0], ast.Name) and isinstance(st.value, (ast.Tuple, ast.List)) \
                and all(isinstance(e, ast.Constant) for e in st.value.elts):
            mconst[st.targets[0].id] = st.value
    mconst = {k: v for k, v in mconst.items() if mcount.get(k) == 1}

    def displays(fnode):
        cnt, val = {}, {}
        for n in _walk_scope_stmt(fnode):
            if isinstance(n, ast.Name) and isinstance(n.ctx, ast.Store):
                cnt[n.id] = cnt.get(n.id, 0) + 1
            if isinstance(n, ast.Assign) and len(n.targets) == 1 and isinstance(n.targets[0], ast.Name) and isinstance(n.value, (ast.Tuple, ast.List)):
                val[n.targets[0].id] = n.value
        prm = {a.arg for a in fnode.args.posonlyargs + fnode.args.args + fnode.args.kwonlyargs}
        out = {k: v for k, v in mconst.items() if k not in cnt and k not in prm}
        out.update({k: v for k, v in val.items() if cnt.get(k) == 1})
        return out

    # class-level constant tuples read as self.X / cls.X inside the methods of the class: bound once in one class body of the
    # module, never stored through an attribute anywhere in the module
    attr_stores = {n.attr for n in ast.walk(tree) if isinstance(n, ast.Attribute) and not isinstance(n.ctx, ast.Load)}
    class_consts = {}          # id(method node) -> (first parameter, {attr: display})
    cdefs = {}
    for cls_ in [n for n in ast.walk(tree) if isinstance(n, ast.ClassDef)]:
        for st in cls_.body:
            if isinstance(st, ast.Assign) and len(st.targets) == 1 and isinstance(st.targets[0], ast.Name):
                cdefs.setdefault(st.targets[0].id, []).append((cls_, st.value))
    all_classes = {n.name: n for n in ast.walk(tree) if isinstance(n, ast.ClassDef)}

    def ancestors(c):
        out, todo = set(), [c]
        while todo:
            for b in todo.pop().bases:
                if isinstance(b, ast.Name) and b.id in all_classes and b.id not in out:
                    out.add(b.id)
                    todo.append(all_classes[b.id])
        return out
    for nm, lst in cdefs.items():
        owners = [c.name for c, _ in lst]
        if len(set(owners)) != len(owners) or nm in attr_stores:
            continue
        # a subclass of an owner that is itself an owner overrides the constant: `self.X` is then not decided by the class body
        related = any(set(owners) & ancestors(c) for c, _ in lst)
        if related:
            continue
        for cls_, val in lst:
            if not (isinstance(val, (ast.Tuple, ast.List)) and all(isinstance(e, ast.Constant) for e in val.elts)):
                continue
            for m_ in cls_.body:
                if isinstance(m_, (ast.FunctionDef, ast.AsyncFunctionDef)) and m_.args.args and \
                        not any(isinstance(d, ast.Name) and d.id == 'staticmethod' for d in m_.decorator_list):
                    class_consts.setdefault(id(m_), (m_.args.args[0].arg, {}))[1][nm] = val
    cur_method = [None]

    def seq_of(it, disp):
        if isinstance(it, ast.Name) and it.id in disp:
            it = disp[it.id]
        cc = class_consts.get(id(cur_method[0]))
        if cc and isinstance(it, ast.Attribute) and isinstance(it.value, ast.Name) and it.value.id == cc[0] and it.attr in cc[1]:
            it = cc[1][it.attr]
        if isinstance(it, (ast.Tuple, ast.List)) and 1 <= len(it.elts) <= 16 and not any(isinstance(e, ast.Starred) for e in it.elts):
            return [[e] for e in it.elts]
        if isinstance(it, ast.Call) and isinstance(it.func, ast.Name) and it.func.id == 'zip' and it.args and not it.keywords:
            parts = [seq_of(a, disp) for a in it.args]
            if all(p_ is not None for p_ in parts) and len({len(p_) for p_ in parts}) == 1:
                return [[x for p_ in parts for x in p_[k]] for k in range(len(parts[0]))]
        return None

    for fnode in [n for n in ast.walk(tree) if isinstance(n, (ast.FunctionDef, ast.AsyncFunctionDef))]:
        cur_method[0] = fnode
        for _round in range(3):
            disp = displays(fnode)
            changed = [False]

            class T(ast.NodeTransformer):
                def visit_FunctionDef(self, n):
                    if n is fnode:
                        self.generic_visit(n)
                    return n

                def visit_ListComp(self, c):
                    self.generic_visit(c)
                    if len(c.generators) != 1 or c.generators[0].ifs or c.generators[0].is_async:
                        return c
                    g = c.generators[0]
                    rows = seq_of(g.iter, disp)
                    if rows is None:
                        return c
                    tgts = [g.target] if isinstance(g.target, ast.Name) else (list(g.target.elts) if isinstance(g.target, ast.Tuple) else None)
                    if tgts is not None and len(tgts) > 1 and all(len(r_) == 1 and isinstance(r_[0], (ast.Tuple, ast.List)) and len(r_[0].elts) == len(tgts) for r_ in rows):
                        rows = [list(r_[0].elts) for r_ in rows]          # a table of rows: `for key, attribute in ((k1, a1), (k2, a2))`
                    if tgts is None or not all(isinstance(t_, ast.Name) for t_ in tgts) or any(len(r_) != len(tgts) for r_ in rows):
                        return c
                    elts = []
                    for r_ in rows:
                        m = {t_.id: e_ for t_, e_ in zip(tgts, r_)}

                        class S(ast.NodeTransformer):
                            def visit_Name(self, n):
                                if n.id in m and isinstance(n.ctx, ast.Load):
                                    return ast.copy_location(copy.deepcopy(m[n.id]), n)
                                return n
                        elts.append(_SimplifySubstituted().visit(S().visit(copy.deepcopy(c.elt))))
                    changed[0] = True
                    n_done[0] += 1
                    return ast.copy_location(ast.List(elts=elts, ctx=ast.Load()), c)

                def visit_DictComp(self, c):
                    self.generic_visit(c)
                    if len(c.generators) != 1 or c.generators[0].ifs or c.generators[0].is_async:
                        return c
                    g = c.generators[0]
                    rows = seq_of(g.iter, disp)
                    if rows is None:
                        return c
                    tgts = [g.target] if isinstance(g.target, ast.Name) else (list(g.target.elts) if isinstance(g.target, ast.Tuple) else None)
                    if tgts is not None and len(tgts) > 1 and all(len(r_) == 1 and isinstance(r_[0], (ast.Tuple, ast.List)) and len(r_[0].elts) == len(tgts) for r_ in rows):
                        rows = [list(r_[0].elts) for r_ in rows]          # a table of rows: `for key, attribute in ((k1, a1), (k2, a2))`
                    if tgts is None or not all(isinstance(t_, ast.Name) for t_ in tgts) or any(len(r_) != len(tgts) for r_ in rows):
                        return c
                    keys, vals = [], []
                    for r_ in rows:
                        m = {t_.id: e_ for t_, e_ in zip(tgts, r_)}

                        class S(ast.NodeTransformer):
                            def visit_Name(self, n):
                                if n.id in m and isinstance(n.ctx, ast.Load):
                                    return ast.copy_location(copy.deepcopy(m[n.id]), n)
                                return n
                        keys.append(_SimplifySubstituted().visit(S().visit(copy.deepcopy(c.key))))
                        vals.append(_SimplifySubstituted().visit(S().visit(copy.deepcopy(c.value))))
                    changed[0] = True
                    n_done[0] += 1
                    return ast.copy_location(ast.Dict(keys=keys, values=vals), c)
            fnode.body = [T().visit(st) for st in fnode.body]
            if not changed[0]:
                break
    return n_done[0]


def dict_displays(tree):
    """`d = {}; d['a'] = x; d['b'] = y; return d` -> `d__a = x; d__b = y; return {'a': d__a, 'b': d__b}`: a dict filled key by
    key in straight-line code and then returned is its display.  Only when `d` is bound once, every other use is `d['const']`
    (stores at the top level of the function) or the returned value, and no nested scope sees it."""
    n_done = 0
    for fnode in [n for n in ast.walk(tree) if isinstance(n, (ast.FunctionDef, ast.AsyncFunctionDef))]:
        body = fnode.body
        cands = [st for st in body if isinstance(st, ast.Assign) and len(st.targets) == 1 and isinstance(st.targets[0], ast.Name)
                 and isinstance(st.value, ast.Dict) and all(isinstance(k, ast.Constant) and isinstance(k.value, str) and k.value.isidentifier()
                                                            for k in st.value.keys)]
        if not cands:
            continue
        parent = {}
        for n in ast.walk(fnode):
            for c in ast.iter_child_nodes(n):
                parent[id(c)] = n
        locals_ = _stored_names(body) | {a.arg for a in fnode.args.posonlyargs + fnode.args.args + fnode.args.kwonlyargs}
        for init in cands:
            d = init.targets[0].id
            occ_all = [n for n in ast.walk(fnode) if isinstance(n, ast.Name) and n.id == d]
            occ_scope = [n for n in _walk_scope_stmt(fnode) if isinstance(n, ast.Name) and n.id == d]
            if len(occ_all) != len(occ_scope) or sum(1 for n in occ_all if not isinstance(n.ctx, ast.Load)) != 1:
                continue
            stores, reads, finals, good = [], [], [], True
            for n in occ_all:
                if n is init.targets[0]:
                    continue
                p_ = parent.get(id(n))
                if isinstance(p_, ast.Subscript) and p_.value is n and isinstance(p_.slice, ast.Constant) and isinstance(p_.slice.value, str) \
                        and p_.slice.value.isidentifier():
                    gp = parent.get(id(p_))
                    if isinstance(p_.ctx, ast.Store):
                        if isinstance(gp, ast.Assign) and len(gp.targets) == 1 and gp.targets[0] is p_ and any(gp is b for b in body):
                            stores.append(gp)
                        else:
                            good = False
                    elif isinstance(p_.ctx, ast.Load):
                        reads.append(p_)
                    else:
                        good = False
                elif isinstance(p_, ast.Return) and p_.value is n and any(p_ is b for b in body):
                    finals.append(p_)
                else:
                    good = False
            if not good or not stores or not finals:
                continue
            keys = [k.value for k in init.value.keys] + [st.targets[0].slice.value for st in stores]
            if any((d + '__' + k) in locals_ for k in keys):
                continue
            pos = {id(b): i for i, b in enumerate(body)}
            if any(pos[id(st)] < pos[id(init)] for st in stores):
                continue

            def tmp(k, ctx):
                return ast.Name(id=d + '__' + k, ctx=ctx)
            new_body = []
            for b in body:
                if b is init:
                    for k, v in zip(init.value.keys, init.value.values):
                        new_body.append(ast.copy_location(ast.Assign(targets=[tmp(k.value, ast.Store())], value=v), init))
                elif any(b is st for st in stores):
                    new_body.append(ast.copy_location(ast.Assign(targets=[tmp(b.targets[0].slice.value, ast.Store())], value=b.value), b))
                elif any(b is r for r in finals):
                    seen = []
                    for k in [k.value for k in init.value.keys] + [st.targets[0].slice.value for st in stores if pos[id(st)] < pos[id(b)]]:
                        if k not in seen:
                            seen.append(k)
                    b.value = ast.copy_location(ast.Dict(keys=[ast.Constant(k) for k in seen], values=[tmp(k, ast.Load()) for k in seen]), b)
                    new_body.append(b)
                else:
                    new_body.append(b)
            fnode.body = new_body
            rd = {id(r): r for r in reads}

            class R(ast.NodeTransformer):
                def visit_Subscript(self, n):
                    if id(n) in rd:
                        return ast.copy_location(tmp(n.slice.value, ast.Load()), n)
                    self.generic_visit(n)
                    return n
            fnode.body = [R().visit(b) for b in fnode.body]
            ast.fix_missing_locations(fnode)
            n_done += 1
            break           # parent links are stale now; one dict per function is the idiom
    return n_done


def property_assignments(tree):
    """`def _get_x(self): ...` followed by `x = property(_get_x)` in a class body is the decorated definition `@property def x`:
    the getter is a function of the same class body that nothing else in the module refers to"""
    count = 0
    for cls in [n for n in ast.walk(tree) if isinstance(n, ast.ClassDef)]:
        for st in list(cls.body):
            if not (isinstance(st, ast.Assign) and len(st.targets) == 1 and isinstance(st.targets[0], ast.Name) and isinstance(st.value, ast.Call)
                    and isinstance(st.value.func, ast.Name) and st.value.func.id == 'property'):
                continue
            c = st.value
            getter = c.args[0] if len(c.args) == 1 and not c.keywords else (
                c.keywords[0].value if not c.args and len(c.keywords) == 1 and c.keywords[0].arg == 'fget' else None)
            if not isinstance(getter, ast.Name):
                continue
            defs = [d for d in cls.body if isinstance(d, ast.FunctionDef) and d.name == getter.id]
            if len(defs) != 1 or defs[0].decorator_list:
                continue
            uses = [n for n in ast.walk(tree) if (isinstance(n, ast.Name) and n.id == getter.id and n is not getter)
                    or (isinstance(n, ast.Attribute) and n.attr == getter.id)]
            new_name = st.targets[0].id
            if uses or any(isinstance(d, (ast.FunctionDef, ast.ClassDef)) and d.name == new_name for d in cls.body):
                continue
            defs[0].name = new_name
            defs[0].decorator_list = [ast.copy_location(ast.Name(id='property', ctx=ast.Load()), defs[0])]
            cls.body.remove(st)
            count += 1
    if count:
        ast.fix_missing_locations(tree)
    return count


def fold_local_tables(tree):
    """a local bound once to a dict display with literal keys and used only through `K in d` and `d[K]` with literal K (an
    overrides table consulted per key) is folded away: the membership tests are decided, the subscripts replaced by the entry, the
    conditional expressions that depended on them resolved."""
    count = 0
    for fnode in [n for n in ast.walk(tree) if isinstance(n, (ast.FunctionDef, ast.AsyncFunctionDef))]:
        par = {}
        for n in _walk_scope(fnode):
            for c in ast.iter_child_nodes(n):
                par[c] = n
        stores = {}
        for n in _walk_scope(fnode):
            if isinstance(n, ast.Name) and isinstance(n.ctx, (ast.Store, ast.Del)):
                stores[n.id] = stores.get(n.id, 0) + 1
        for st in list(_walk_scope(fnode)):
            if not (isinstance(st, ast.Assign) and len(st.targets) == 1 and isinstance(st.targets[0], ast.Name) and isinstance(st.value, ast.Dict)
                    and st.value.keys and all(k is not None and isinstance(k, ast.Constant) for k in st.value.keys)):
                continue
            d = st.targets[0].id
            if stores.get(d) != 1:
                continue
            uses = [n for n in _walk_scope(fnode) if isinstance(n, ast.Name) and n.id == d and isinstance(n.ctx, ast.Load)]
            if not uses:
                continue
            ok = True
            for un in uses:
                p_ = par.get(un)
                if isinstance(p_, ast.Subscript) and p_.value is un and isinstance(p_.ctx, ast.Load) and isinstance(p_.slice, ast.Constant):
                    continue
                if isinstance(p_, ast.Compare) and len(p_.ops) == 1 and isinstance(p_.ops[0], (ast.In, ast.NotIn)) and p_.comparators[0] is un \
                        and isinstance(p_.left, ast.Constant):
                    continue
                ok = False
            if not ok:
                continue
            # only the overrides idiom (`d[K] if K in d else default`): a table that is merely looked up keeps its keys - the names in it
            # say which column is which
            if not any(isinstance(par.get(un), ast.Compare) for un in uses):
                continue
            table = {k.value: v for k, v in zip(st.value.keys, st.value.values)}

            class F(ast.NodeTransformer):
                def visit_Compare(self, n):
                    self.generic_visit(n)
                    if len(n.ops) == 1 and isinstance(n.ops[0], (ast.In, ast.NotIn)) and isinstance(n.comparators[0], ast.Name) and n.comparators[0].id == d \
                            and isinstance(n.left, ast.Constant):
                        r = n.left.value in table
                        return ast.copy_location(ast.Constant(value=r if isinstance(n.ops[0], ast.In) else not r), n)
                    return n

                def visit_Subscript(self, n):
                    self.generic_visit(n)
                    if isinstance(n.value, ast.Name) and n.value.id == d and isinstance(n.slice, ast.Constant) and n.slice.value in table:
                        return ast.copy_location(copy.deepcopy(table[n.slice.value]), n)
                    return n

                def visit_IfExp(self, n):
                    t = self.visit(n.test)
                    if isinstance(t, ast.Constant) and isinstance(t.value, bool):
                        return self.visit(n.body if t.value else n.orelse)
                    n.test, n.body, n.orelse = t, self.visit(n.body), self.visit(n.orelse)
                    return n
            # a subscript with a key the table lacks, outside a decided conditional, would raise: leave such functions alone
            fnode.body = [F().visit(b) for b in fnode.body]
            left = [n for n in _walk_scope(fnode) if isinstance(n, ast.Name) and n.id == d and isinstance(n.ctx, ast.Load)]
            if not left:
                for blk_owner in ast.walk(fnode):
                    for fld in ('body', 'orelse', 'finalbody'):
                        b = getattr(blk_owner, fld, None)
                        if isinstance(b, list) and st in b and len(b) > 1:
                            b.remove(st)
            count += 1
    if count:
        ast.fix_missing_locations(tree)
    return count


def dict_splat_locals(tree):
    """`opts = {'seed': seed, 'n': n}` ... `f(x, **opts)`: a local bound once to a display with identifier keys and read only as the
    `**` argument of one call is written at that call (`f(x, **{...})`, which the spelling pass turns into keywords); the binding goes.
    Only when nothing between the binding and the call can tell the difference: the binding and the call stand in the same statement
    list and the display holds plain names / constants / attributes / calls on them."""
    n_done = 0
    for fn in [x for x in ast.walk(tree) if isinstance(x, (ast.FunctionDef, ast.AsyncFunctionDef))]:
        scope = list(_walk_scope(fn))
        stores = {}
        for x in scope:
            if isinstance(x, ast.Assign) and len(x.targets) == 1 and isinstance(x.targets[0], ast.Name):
                stores.setdefault(x.targets[0].id, []).append(x)
            elif isinstance(x, (ast.AugAssign, ast.AnnAssign)) and isinstance(x.target, ast.Name):
                stores.setdefault(x.target.id, []).append(x)
        for name, asg in stores.items():
            if len(asg) != 1 or not isinstance(asg[0], ast.Assign) or not isinstance(asg[0].value, ast.Dict):
                continue
            d = asg[0].value
            if not d.keys or not all(isinstance(k, ast.Constant) and isinstance(k.value, str) and k.value.isidentifier() for k in d.keys):
                continue
            loads = [x for x in scope if isinstance(x, ast.Name) and x.id == name and isinstance(x.ctx, ast.Load)]
            other_stores = [x for x in scope if isinstance(x, ast.Name) and x.id == name and not isinstance(x.ctx, ast.Load) and x is not asg[0].targets[0]]
            if len(loads) != 1 or other_stores:
                continue
            calls = [c for c in scope if isinstance(c, ast.Call) and any(k.arg is None and k.value is loads[0] for k in c.keywords)]
            if len(calls) != 1:
                continue
            # the statement list that holds the binding must hold the statement of the call as well
            def holder(node):
                for blk_owner in scope + [fn]:
                    for fld in ('body', 'orelse', 'finalbody'):
                        blk = getattr(blk_owner, fld, None)
                        if isinstance(blk, list) and any(node is s_ for s_ in blk):
                            return blk
                return None
            blk = holder(asg[0])
            if blk is None:
                continue
            call_stmt = next((s_ for s_ in blk if any(x is calls[0] for x in ast.walk(s_))), None)
            if call_stmt is None or blk.index(call_stmt) < blk.index(asg[0]):
                continue
            for k in calls[0].keywords:
                if k.arg is None and k.value is loads[0]:
                    k.value = d
            blk.remove(asg[0])
            n_done += 1
    return n_done


def canonical_local(tree):
    """function-local canonical forms that do not need the reference: comprehensions and loops over small constant sequences are
    written out.  Applied to the reference tree before it is fingerprinted and to the analysed tree before it is compared."""
    n = property_assignments(tree) + dict_displays(tree) + unroll_constant_comprehensions(tree) + unroll_constant_loops(tree)
    n += fold_local_tables(tree)
    n += dict_displays(tree)          # a display written out of a comprehension may be completed by the item stores after it
    return n + dict_splat_locals(tree)          # a display written out of a comprehension may be completed by the item stores after it


def inline_expression_helpers(tree, new):
    """a new helper whose body is a single `return E` is substituted at its call sites wherever they stand (conditions,
    comprehensions, arguments), provided each argument is a plain name / constant / attribute / subscript of those"""
    def simple(e):
        if isinstance(e, (ast.Name, ast.Constant)):
            return True
        if isinstance(e, ast.Attribute):
            return simple(e.value)
        if isinstance(e, ast.Subscript):
            return simple(e.value) and (isinstance(e.slice, (ast.Constant, ast.Name)))
        return False
    cands = {}
    for q, (g, gcls, gparent) in new.items():
        body = _strip_docstring(g.body)
        if len(body) == 1 and isinstance(body[0], ast.Return) and body[0].value is not None and not g.decorator_list \
                and not g.args.vararg and not g.args.kwarg and not any(isinstance(n, ast.Call) and isinstance(n.func, ast.Name) and n.func.id == g.name
                                                                     for n in ast.walk(body[0].value)):
            cands.setdefault(g.name, []).append((g, gcls, gparent))
    # a name defined more than once (nested helpers of different functions) is resolved by scope: keep only unambiguous ones
    cands = {k: (v[0][0], v[0][1], v[0][2]) for k, v in cands.items() if len(v) == 1}
    if not cands:
        return 0
    n_done = [0]

    class T(ast.NodeTransformer):
        def __init__(self):
            self.stack = []

        def visit_FunctionDef(self, n):
            self.stack.append(n)
            self.generic_visit(n)
            self.stack.pop()
            return n

        def visit_Call(self, c):
            self.generic_visit(c)
            f = c.func
            nm, is_method = None, False
            if isinstance(f, ast.Name) and f.id in cands and cands[f.id][1] is None \
                    and (cands[f.id][2] is None or cands[f.id][2] in self.stack):
                nm = f.id
            elif isinstance(f, ast.Attribute) and isinstance(f.value, ast.Name) and f.value.id in ('self', 'cls') and f.attr in cands \
                    and cands[f.attr][1] is not None:
                nm, is_method = f.attr, not any(isinstance(d, ast.Name) and d.id == 'staticmethod' for d in cands[f.attr][0].decorator_list)
            if nm is None:
                return c
            g = cands[nm][0]
            try:
                m = _bind(g, c, is_method)
            except NotInlineable:
                return c
            if not all(simple(a) for a in m.values()):
                return c

            class S(ast.NodeTransformer):
                def visit_Name(self, n):
                    if n.id in m and isinstance(n.ctx, ast.Load):
                        return ast.copy_location(copy.deepcopy(m[n.id]), n)
                    return n
            n_done[0] += 1
            return ast.copy_location(S().visit(copy.deepcopy(_strip_docstring(g.body)[0].value)), c)
    for st in tree.body:
        T().visit(st)
    return n_done[0]


def localise_new_class_tables(tree, known_attrs):
    """a table kept as a class attribute that the reference does not have (`_region_loaders = {...}` hoisted out of a method) and that
    the methods of the class only read through `self.X` / `cls.X` / `Class.X` is written back as a local of every method that reads
    it.  Bound once in one class body to a display of literals and global names; no attribute store of that name anywhere in the
    module; no related class of the module binds the same name."""
    classes = {c.name: c for c in ast.walk(tree) if isinstance(c, ast.ClassDef)}
    attr_stores = {n.attr for n in ast.walk(tree) if isinstance(n, ast.Attribute) and not isinstance(n.ctx, ast.Load)}

    def simple(e):
        if _is_literal(e):
            return True
        if isinstance(e, (ast.Name, ast.Attribute)):
            return True
        if isinstance(e, (ast.List, ast.Tuple, ast.Set)):
            return all(simple(x) for x in e.elts)
        if isinstance(e, ast.Dict):
            return all(k is not None and simple(k) for k in e.keys) and all(simple(v) for v in e.values)
        return False

    def ancestors(c):
        out, todo = set(), [c]
        while todo:
            for b in todo.pop().bases:
                if isinstance(b, ast.Name) and b.id in classes and b.id not in out:
                    out.add(b.id)
                    todo.append(classes[b.id])
        return out
    owners = {}
    for c in classes.values():
        for st in c.body:
            if isinstance(st, ast.Assign) and len(st.targets) == 1 and isinstance(st.targets[0], ast.Name):
                owners.setdefault(st.targets[0].id, []).append((c, st.value))
    done = []
    READ_METHODS = {'get', 'keys', 'items', 'values', 'index', 'count', 'copy'}
    for nm, lst in owners.items():
        if nm in attr_stores or (nm.startswith('__') and nm.endswith('__')):
            continue
        names = [c.name for c, _ in lst]
        if len(set(names)) != len(names) or any(set(names) & ancestors(c) for c, _ in lst):
            continue
        for c, val in lst:
            if '%s.%s' % (c.name, nm) in known_attrs:
                continue
            if not (isinstance(val, (ast.List, ast.Dict, ast.Set, ast.Tuple)) and simple(val)):
                continue
            # every read in the module must be self.X / cls.X / C.X inside a method of c, in a read-only position
            par = {}
            for n in ast.walk(tree):
                for ch in ast.iter_child_nodes(n):
                    par[ch] = n
            reads = [n for n in ast.walk(tree) if isinstance(n, ast.Attribute) and n.attr == nm and isinstance(n.ctx, ast.Load)]
            plain = [n for n in ast.walk(c) if isinstance(n, ast.Name) and n.id == nm and isinstance(n.ctx, ast.Load)]
            if plain:
                continue          # read as a bare name inside the class body (another class attribute built from it)
            ok = True
            methods = {}
            for r in reads:
                m_ = r
                while m_ is not None and not (isinstance(m_, (ast.FunctionDef, ast.AsyncFunctionDef)) and par.get(m_) is c):
                    m_ = par.get(m_)
                if m_ is None or not m_.args.args or any(isinstance(d, ast.Name) and d.id == 'staticmethod' for d in m_.decorator_list) and not \
                        (isinstance(r.value, ast.Name) and r.value.id == c.name):
                    ok = False
                    break
                first = m_.args.args[0].arg if m_.args.args else None
                if not (isinstance(r.value, ast.Name) and r.value.id in (first, c.name)):
                    ok = False
                    break
                p_ = par.get(r)
                if not ((isinstance(p_, ast.Subscript) and p_.value is r and isinstance(p_.ctx, ast.Load)) or
                        (isinstance(p_, ast.Compare) and r in p_.comparators) or
                        (isinstance(p_, (ast.For, ast.comprehension)) and p_.iter is r) or
                        (isinstance(p_, ast.Attribute) and p_.attr in READ_METHODS) or
                        (isinstance(p_, ast.Call) and r in p_.args) or isinstance(p_, (ast.keyword, ast.Starred))):
                    ok = False
                    break
                methods.setdefault(id(m_), (m_, []))[1].append(r)
            if not ok or not methods:
                continue
            for m_, rs in methods.values():
                params, locs = local_names(m_)
                if nm in params or nm in locs:
                    ok = False
            if not ok:
                continue
            for m_, rs in methods.values():
                for r in rs:
                    p_ = par[r]
                    new = ast.copy_location(ast.Name(id=nm, ctx=ast.Load()), r)
                    for fld, v in ast.iter_fields(p_):
                        if v is r:
                            setattr(p_, fld, new)
                        elif isinstance(v, list) and any(x is r for x in v):
                            v[:] = [new if x is r else x for x in v]
                k = 1 if (m_.body and isinstance(m_.body[0], ast.Expr) and isinstance(getattr(m_.body[0], 'value', None), ast.Constant)
                          and isinstance(m_.body[0].value.value, str)) else 0
                st = ast.Assign(targets=[ast.Name(id=nm, ctx=ast.Store())], value=copy.deepcopy(val), lineno=m_.lineno, col_offset=0)
                ast.copy_location(st, m_.body[k] if k < len(m_.body) else m_)
                m_.body.insert(k, st)
            done.append('%s.%s' % (c.name, nm))
    if done:
        ast.fix_missing_locations(tree)
    return sorted(done)


def localise_new_tables(tree, known):
    """a module-level table the reference does not have (`_REGION_LOADERS = {...}`, `_HEADER = [...]` hoisted out of a function)
    is written back as a local of every function that reads it: bound once, at module level, to a display of literals and global
    names; never rebound; only read (subscript loads, membership tests, iteration, read-only dict methods, arguments of calls)"""
    stores = {}
    for n in ast.walk(tree):
        if isinstance(n, ast.Name) and not isinstance(n.ctx, ast.Load):
            stores[n.id] = stores.get(n.id, 0) + 1
        elif isinstance(n, (ast.Global, ast.Nonlocal)):
            for x in n.names:
                stores[x] = stores.get(x, 0) + 2
        elif isinstance(n, ast.arg):
            stores[n.arg] = stores.get(n.arg, 0) + 2

    def simple(e):
        if _is_literal(e):
            return True
        if isinstance(e, (ast.Name, ast.Attribute)):
            return _is_global_ref(e) if isinstance(e, ast.Attribute) else True
        if isinstance(e, (ast.List, ast.Tuple, ast.Set)):
            return all(simple(x) for x in e.elts)
        if isinstance(e, ast.Dict):
            return all(k is not None and simple(k) for k in e.keys) and all(simple(v) for v in e.values)
        return False
    tables = {}
    for st in tree.body:
        if isinstance(st, ast.Assign) and len(st.targets) == 1 and isinstance(st.targets[0], ast.Name) \
                and isinstance(st.value, (ast.List, ast.Dict, ast.Set, ast.Tuple)) and simple(st.value):
            nm = st.targets[0].id
            if nm not in known and stores.get(nm) == 1 and not (nm.startswith('__') and nm.endswith('__')):
                tables[nm] = st.value
    if not tables:
        return []
    # parent links, locally
    par = {}
    for n in ast.walk(tree):
        for c in ast.iter_child_nodes(n):
            par[c] = n
    READ_METHODS = {'get', 'keys', 'items', 'values', 'index', 'count', 'copy'}
    for n in ast.walk(tree):
        if isinstance(n, ast.Name) and isinstance(n.ctx, ast.Load) and n.id in tables:
            p_ = par.get(n)
            ok = False
            if isinstance(p_, ast.Subscript) and p_.value is n and isinstance(p_.ctx, ast.Load):
                ok = True
            elif isinstance(p_, ast.Compare) and n in p_.comparators:
                ok = True
            elif isinstance(p_, (ast.For, ast.comprehension)) and p_.iter is n:
                ok = True
            elif isinstance(p_, ast.Attribute) and p_.attr in READ_METHODS:
                ok = True
            elif isinstance(p_, ast.Call) and (n in p_.args):
                ok = True
            elif isinstance(p_, ast.keyword):
                ok = True
            elif isinstance(p_, ast.Starred):
                ok = True
            if not ok:
                tables.pop(n.id, None)
    if not tables:
        return []
    done = set()

    def top_functions(body):
        for st in body:
            if isinstance(st, (ast.FunctionDef, ast.AsyncFunctionDef)):
                yield st
            elif isinstance(st, ast.ClassDef):
                yield from top_functions(st.body)
    for fn in top_functions(tree.body):
        params, locs = local_names(fn)
        # names read in the body (not in decorators / defaults, which are evaluated at module level)
        read = {n.id for st in fn.body for n in ast.walk(st) if isinstance(n, ast.Name) and isinstance(n.ctx, ast.Load)}
        ins = [nm for nm in tables if nm in read and nm not in params and nm not in locs]
        if not ins:
            continue
        k = 1 if (fn.body and isinstance(fn.body[0], ast.Expr) and isinstance(getattr(fn.body[0], 'value', None), ast.Constant)
                  and isinstance(fn.body[0].value.value, str)) else 0
        for nm in reversed(ins):
            st = ast.Assign(targets=[ast.Name(id=nm, ctx=ast.Store())], value=copy.deepcopy(tables[nm]), lineno=fn.lineno, col_offset=0)
            ast.copy_location(st, fn.body[k] if k < len(fn.body) else fn)
            fn.body.insert(k, st)
            done.add(nm)
    ast.fix_missing_locations(tree)
    return sorted(done)


def materialise_imported_helpers(prog, ref):
    """a helper that the reference does not have, defined at module level in one package module and imported by name into another
    (`from csep.utils.readers import _first_occurrence_index`), is copied into the importing module, where the ordinary splicing of
    new helpers applies.  Only when the global names the helper reads mean the same in both modules (same import statement text) or
    are builtins."""
    import builtins as _b
    out = {}
    by_name = {m.name: m for m in prog.modules.values()}

    def import_table(tree):
        t = {}
        for st in tree.body:
            if isinstance(st, ast.Import):
                for a in st.names:
                    t[(a.asname or a.name).split('.')[0]] = 'import %s as %s' % (a.name, a.asname or a.name)
            elif isinstance(st, ast.ImportFrom):
                for a in st.names:
                    t[a.asname or a.name] = 'from %s%s import %s' % ('.' * (st.level or 0), st.module or '', a.name)
        return t
    new_in = {}
    for m in prog.modules.values():
        rfuncs = ref.get(m.relpath.replace(os.sep, '/'))
        if rfuncs is None:
            continue
        new_in[m.name] = {st.name: st for st in m.tree.body if isinstance(st, ast.FunctionDef) and st.name not in rfuncs}
    for m in prog.modules.values():
        if m.name not in new_in:
            continue
        here = import_table(m.tree)
        for st in list(m.tree.body):
            if not isinstance(st, ast.ImportFrom) or st.level:
                continue
            src = by_name.get(st.module or '')
            if src is None or src is m or src.name not in new_in:
                continue
            there = import_table(src.tree)
            for a in list(st.names):
                g = new_in[src.name].get(a.name)
                if g is None or a.asname not in (None, a.name):
                    continue
                params, locs = local_names(g)
                free = {n.id for n in ast.walk(g) if isinstance(n, ast.Name) and isinstance(n.ctx, ast.Load)} - set(params) - set(locs)
                if not all(hasattr(_b, nm) or (nm in here and here.get(nm) == there.get(nm)) for nm in free):
                    continue
                if any(isinstance(x, ast.FunctionDef) and x.name == a.name for x in m.tree.body):
                    continue
                st.names.remove(a)
                idx = m.tree.body.index(st) + 1
                m.tree.body.insert(idx, copy.deepcopy(g))
                out.setdefault(m.name, []).append('%s.%s' % (src.name, a.name))
            if not st.names:
                m.tree.body.remove(st)
    return out


# ------------------------------------------------------------------------------------------------ driver
def apply(prog):
    """mutate the module trees of `prog`; fills prog.alias (new qualified name -> reference qualified name) and
    prog.normalization (what was done, for the evidence)"""
    prog.alias = {}
    prog.normalization = {'aliases': {}, 'locals_restored': [], 'inlined': {}, 'not_inlined': {}}
    ref = load_reference()
    if ref is None:
        return
    for m in prog.modules.values():
        # parent links would make every deepcopy drag the whole module along; the loader sets them again afterwards
        for n in ast.walk(m.tree):
            n.__dict__.pop('_parent', None)
    moved = materialise_imported_helpers(prog, ref)
    if moved:
        prog.normalization['imported_helpers_materialised'] = moved
    for m in prog.modules.values():
        rfuncs = ref.get(m.relpath.replace(os.sep, '/'))
        if rfuncs is None:
            continue
        if rfuncs.get('__sha__') == hashlib.sha1(m.src.encode('utf-8')).hexdigest():
            canonical_local(m.tree)          # the same local canonical forms whether or not the module changed
            continue            # the module is byte-identical to the reference
        known_consts = rfuncs.get('__consts__')
        known_attrs = rfuncs.get('__classattrs__')
        rfuncs = {k: v for k, v in rfuncs.items() if not k.startswith('__')}
        if known_consts is not None:
            done = inline_new_constants(m.tree, set(known_consts))
            if done:
                prog.normalization.setdefault('constants_inlined', {})[m.name] = done
        canonical_local(m.tree)
        funcs = iter_functions(m.tree)
        present = {q: (n, c, p) for q, n, c, p in funcs}
        vanished = [q for q in rfuncs if q not in present]
        new = {q: v for q, v in present.items() if q not in rfuncs}
        if not vanished and not new and all(alpha_hash(n)[2] == rfuncs[q]['locals'] for q, (n, c, p) in present.items()):
            continue
        # ---- 1. aliases of vanished functions (fixpoint: callers' hashes depend on callee names)
        galias = {}        # new short name -> old short name ('.' prefix for attribute names)
        matched = {}
        for _ in range(4):
            progress = False
            for v in vanished:
                if v in matched:
                    continue
                cands = [q for q, (n, c, p) in new.items() if q not in matched.values() and alpha_hash(n, galias)[0] == rfuncs[v]['hash']]
                if len(cands) == 1:
                    matched[v] = cands[0]
                    old_short, new_short = v.split('.')[-1], cands[0].split('.')[-1]
                    if old_short != new_short:
                        galias[new_short] = old_short
                        galias['.' + new_short] = old_short
                    progress = True
            if not progress:
                break
        for old_q, new_q in matched.items():
            prog.alias[m.name + '.' + new_q] = m.name + '.' + old_q
            prog.normalization['aliases'][m.name + '.' + new_q] = m.name + '.' + old_q
            del new[new_q]
        # ---- 2. restore reference local names where only names changed
        for q, (n, c, p) in present.items():
            rq = q if q in rfuncs else next((o for o, nn in matched.items() if nn == q), None)
            if rq is None:
                continue
            h, params, order = alpha_hash(n, galias)
            r = rfuncs[rq]
            if h == r['hash'] and params == r['params'] and order != r['locals'] and len(order) == len(r['locals']):
                mapping = {a: b for a, b in zip(order, r['locals']) if a != b}
                # two-step rename to survive permutations (a->b, b->a)
                tmp = {a: '__tmp_%d__' % i for i, a in enumerate(mapping)}
                rename_locals(n, tmp)
                rename_locals(n, {tmp[a]: b for a, b in mapping.items()})
                prog.normalization['locals_restored'].append(m.name + '.' + q)
        # ---- 3. splice helpers that do not exist in the reference back into their callers
        if new:
            props = new_properties_to_calls(m.tree, new)
            if props:
                prog.normalization.setdefault('properties_as_helpers', {})[m.name] = props
            inl = _Inliner(m.tree, new)
            new_names = {n.name for (n, c, p) in new.values()}

            def is_new_callee(call):
                f = call.func
                return (isinstance(f, ast.Name) and f.id in new_names) or \
                    (isinstance(f, ast.Attribute) and isinstance(f.value, ast.Name) and f.value.id in ('self', 'cls') and f.attr in new_names)
            for _round in range(3):
                before = inl.count
                for q, n, c, p in iter_functions(m.tree):
                    chain = []
                    pp = p
                    while pp is not None:
                        chain.append(pp)
                        pp = next((x[3] for x in funcs if x[1] is pp), None)
                    hoist_nested_calls(n, is_new_callee)
                    inl.run_function(n, c, chain)
                if inl.count == before:
                    break
            n_expr = inline_expression_helpers(m.tree, new)
            if n_expr:
                prog.normalization.setdefault('expression_helpers', {})[m.name] = n_expr
            n_removed = _remove_dead_helpers(m.tree, new)
            if n_removed:
                prog.normalization.setdefault('helpers_removed', {})[m.name] = n_removed
            n_lambda = _defs_to_lambdas(m.tree, new)
            if n_lambda:
                prog.normalization.setdefault('defs_to_lambdas', {})[m.name] = n_lambda
            if inl.count:
                prog.normalization['inlined'][m.name] = {'helpers': sorted(new), 'call_sites': inl.count}
            if inl.failed:
                prog.normalization['not_inlined'][m.name] = inl.failed
        n_comp = unroll_constant_comprehensions(m.tree)
        if n_comp:
            prog.normalization.setdefault('comprehensions_unrolled', {})[m.name] = n_comp
        if known_consts is not None:
            done = localise_new_tables(m.tree, set(known_consts))
            if known_attrs is not None:
                done = done + localise_new_class_tables(m.tree, set(known_attrs))
            if done:
                prog.normalization.setdefault('tables_localised', {})[m.name] = done
        n_unrolled = unroll_constant_loops(m.tree)
        if n_unrolled:
            prog.normalization.setdefault('loops_unrolled', {})[m.name] = n_unrolled
        # a table that was just written back as a local may feed a comprehension: write that out as well
        n_comp2 = unroll_constant_comprehensions(m.tree)
        if n_comp2:
            prog.normalization.setdefault('comprehensions_unrolled', {})[m.name] = prog.normalization.get('comprehensions_unrolled', {}).get(m.name, 0) + n_comp2
            dict_displays(m.tree)
        ast.fix_missing_locations(m.tree)


def new_properties_to_calls(tree, new):
    """a read-only property the reference does not have (`@property def _region_magnitudes(self)`) is a helper method whose call is
    spelt as an attribute read: within the methods of its class, `self.<name>` becomes `self.<name>()` and the decorator goes, so that
    the helper is spliced into its readers like any other new method.  Only when the name has no setter / deleter, is never stored
    to, and is read through `self` only."""
    done = []
    for q, (n, c, p) in list(new.items()):
        if c is None or p is not None or q.endswith(('.setter', '.deleter')):
            continue
        if not (len(n.decorator_list) == 1 and isinstance(n.decorator_list[0], ast.Name) and n.decorator_list[0].id == 'property'):
            continue
        name = n.name
        if any(isinstance(x, (ast.FunctionDef, ast.AsyncFunctionDef)) and x is not n and x.name == name for x in ast.walk(tree)):
            continue
        uses = [x for x in ast.walk(tree) if isinstance(x, ast.Attribute) and x.attr == name]
        inside = {id(x) for x in ast.walk(c)}
        if not uses or any(not isinstance(x.ctx, ast.Load) or not (isinstance(x.value, ast.Name) and x.value.id == 'self') or id(x) not in inside for x in uses):
            continue
        targets = {id(x) for x in uses}

        class R(ast.NodeTransformer):
            def visit_Attribute(self, a):
                self.generic_visit(a)
                if id(a) in targets:
                    return ast.copy_location(ast.Call(func=a, args=[], keywords=[]), a)
                return a
        R().visit(c)
        n.decorator_list = []
        done.append(q)
    return done


# ------------------------------------------------------------------------------------------------ spelling variants
class _Spelling(ast.NodeTransformer):
    """`X.shape[0]` -> `len(X)`;  `(a == b).any()` / `.all()` on a comparison or boolean combination -> numpy.any / numpy.all"""
    def __init__(self, numpy_name):
        self.np = numpy_name
        self.count = 0

    def visit_Subscript(self, n):
        self.generic_visit(n)
        if isinstance(n.ctx, ast.Load) and isinstance(n.value, ast.Attribute) and n.value.attr == 'shape' \
                and isinstance(n.slice, ast.Constant) and n.slice.value == 0 and not isinstance(n.slice.value, bool):
            self.count += 1
            return ast.copy_location(ast.Call(func=ast.Name(id='len', ctx=ast.Load()), args=[n.value.value], keywords=[]), n)
        return n

    def visit_Call(self, n):
        self.generic_visit(n)
        # f(**{'a': x, 'b': y}) is f(a=x, b=y)
        if any(k.arg is None and isinstance(k.value, ast.Dict) and k.value.keys and all(
                isinstance(kk, ast.Constant) and isinstance(kk.value, str) and kk.value.isidentifier() for kk in k.value.keys) for k in n.keywords):
            kws = []
            for k in n.keywords:
                if k.arg is None and isinstance(k.value, ast.Dict) and k.value.keys and all(
                        isinstance(kk, ast.Constant) and isinstance(kk.value, str) and kk.value.isidentifier() for kk in k.value.keys):
                    kws.extend(ast.keyword(arg=kk.value, value=vv) for kk, vv in zip(k.value.keys, k.value.values))
                    self.count += 1
                else:
                    kws.append(k)
            if len({k.arg for k in kws if k.arg}) == len([k for k in kws if k.arg]):
                n.keywords = kws
        # sum(x for ...) consumes its generator completely: the same as sum([x for ...])
        if isinstance(n.func, ast.Name) and n.func.id in ('sum', 'min', 'max', 'any', 'all', 'list', 'tuple', 'sorted', 'set') \
                and len(n.args) >= 1 and isinstance(n.args[0], ast.GeneratorExp):
            g = n.args[0]
            n.args[0] = ast.copy_location(ast.ListComp(elt=g.elt, generators=g.generators), g)
            self.count += 1
        if self.np and isinstance(n.func, ast.Attribute) and n.func.attr in ('any', 'all') and not n.args and not n.keywords \
                and isinstance(n.func.value, (ast.Compare, ast.BoolOp, ast.BinOp, ast.UnaryOp)):
            self.count += 1
            return ast.copy_location(ast.Call(func=ast.Attribute(value=ast.Name(id=self.np, ctx=ast.Load()), attr=n.func.attr, ctx=ast.Load()),
                                              args=[n.func.value], keywords=[]), n)
        return n


def spelling(prog):
    n = 0
    for m in prog.modules.values():
        np_name = next((k for k, v in m.imports.items() if v == 'numpy'), None)
        if 'len' in m.toplevel:
            continue
        t = _Spelling(np_name)
        m.tree = t.visit(m.tree)
        n += t.count
        ast.fix_missing_locations(m.tree)
    prog.normalization['spelling_variants'] = n


# ------------------------------------------------------------------------------------------------ call arguments
EXTERNAL_SIGNATURES = {
    'numpy.loadtxt': ['fname'], 'numpy.genfromtxt': ['fname'],
    'datetime.datetime': ['year', 'month', 'day', 'hour', 'minute', 'second', 'microsecond', 'tzinfo'],
    'datetime.datetime.fromtimestamp': ['timestamp', 'tz'],
    'datetime.datetime.strptime': ['date_string', 'format'],
    'json.dump': ['obj', 'fp'], 'json.load': ['fp'], 'builtins.open': ['file', 'mode'],
    'numpy.linspace': ['start', 'stop', 'num'], 'numpy.searchsorted': ['a', 'v', 'side'],
    'numpy.round': ['a', 'decimals'], 'numpy.sum': ['a'], 'numpy.cumsum': ['a'],
    'numpy.unique': ['ar'], 'numpy.sort': ['a'], 'numpy.argsort': ['a'], 'numpy.add.at': ['a', 'indices', 'b'],
    'numpy.floor': ['x'], 'numpy.array': ['object'], 'numpy.asarray': ['a'], 'numpy.zeros': ['shape'], 'numpy.ones': ['shape'],
    'numpy.ma.masked_where': ['condition', 'a'], 'numpy.logical_and': ['x1', 'x2'], 'numpy.logical_or': ['x1', 'x2'],
    'scipy.stats.poisson.cdf': ['k', 'mu'], 'scipy.stats.nbinom.cdf': ['k', 'n', 'p'],
}


def positional_prefix(prog):
    """arguments given by keyword become positional as far as they continue the positional prefix of the callee's
    signature (package functions by their definition, a few external callables by table): `f(p=x, bins=y)` and
    `f(x, bins=y)` become `f(x, y)`.  Keywords beyond a gap stay keywords."""
    n_calls = 0
    for f in list(prog.funcs.values()):
        for c in ast.walk(f.node):
            if not isinstance(c, ast.Call) or not c.keywords or any(k.arg is None for k in c.keywords) \
                    or any(isinstance(a, ast.Starred) for a in c.args):
                continue
            sig = None
            fn = c.func
            q = None
            try:
                q = prog.canon(f, fn) if isinstance(fn, (ast.Name, ast.Attribute)) else None
            except Exception:
                q = None
            if q in prog.funcs:
                g = prog.funcs[q]
                if g.node.args.vararg is None:
                    sig = list(g.positional_params)
                    if g.cls is not None and g.parent is None and g.kind in ('function', 'classmethod') and sig and sig[0] in ('self', 'cls'):
                        # Class.method(obj, ...) passes self explicitly; Class.classmethod(...) does not
                        if g.kind == 'classmethod' or not (isinstance(fn, ast.Attribute) and prog.canon(f, fn.value) in prog.classes):
                            sig = sig[1:]
            elif q in prog.classes:
                init = prog.classes[q].find_method('__init__')
                if init is not None and init.node.args.vararg is None:
                    sig = list(init.positional_params)[1:]
            elif q in EXTERNAL_SIGNATURES:
                sig = EXTERNAL_SIGNATURES[q]
            elif isinstance(fn, ast.Attribute) and isinstance(fn.value, ast.Name) and fn.value.id in ('self', 'cls') and f.cls is not None:
                g = f.cls.find_method(fn.attr)
                if g is not None and g.node.args.vararg is None and g.kind in ('function', 'classmethod'):
                    sig = list(g.positional_params)[1:]
            if not sig:
                continue
            moved = False
            while len(c.args) < len(sig):
                nxt = sig[len(c.args)]
                k = next((k for k in c.keywords if k.arg == nxt), None)
                if k is None:
                    break
                c.keywords.remove(k)
                c.args.append(k.value)
                k.value._parent = c
                moved = True
            if moved:
                n_calls += 1
    prog.normalization['keywords_to_positional'] = n_calls
